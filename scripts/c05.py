"""C05 - String literals decode exactly per RFC 8259 escapes, wherever they sit."""
from vlib import *
import p_text as T


def run(tier):
    ctx = Ctx("C05", tier)
    q = ctx.quick
    builds = ["prod-avx2", "asan-avx2", "prod-sse"] if q else \
        ["prod-avx2", "asan-avx2", "prod-sse", "asan-sse", "prod-dyn", "asan-dyn"]
    # alignment of the literal to the 16/32-byte blocks: every offset 0..31 (leading spaces)
    pads = list(range(0, 32, 3)) + [15, 16, 31] if q else list(range(0, 33))
    pads = sorted(set(pads))
    corpora = T.corpora(ctx, "C05")
    total = 0
    for name, rows in corpora:
        # only texts whose verdict is decided by a string literal (valid texts, or string-content faults)
        rows = [r for r in rows if r[2] == "1" or r[3] in ("ctl", "esc", "hex", "sur", "seof")]
        p = pads if name in ("strings",) else pads[::3]
        fails, _, _ = T.replay_parse(ctx, rows, builds, p, name=name)
        T.record_fails(ctx, rows, fails, T.OWN["C05"], name)
        total += len(rows)
        ctx.traces += len(rows) * len(builds)
        ctx.log(f"replayed corpus {name}: {len(rows)} texts x {len(p)} alignments x {len(builds)} builds; failures so far {len(ctx.fail)}")
        for r in rows[:1] + rows[-1:]:
            ctx.samples.append(dict(corpus=name, **T.describe(r)))
    ctx.extra.update(replayed_cases=total, builds=builds, alignments=pads)
    ctx.assumptions += ["R-model JsonText!DecodeString (sequential RFC 8259 decoder with surrogate pairing) is the only oracle",
                        "the on-demand key decode path is exercised by the C10 check (escaped keys in its corpora)"]
    ctx.finish(rule="TLC builds literals = quote filler^a item1 filler^b item2 filler^c quote over all escape kinds, raw special "
                    "bytes and ill-formed escapes x offsets crossing 16/32-byte blocks, every 16-bit \\u value, a surrogate "
                    "boundary grid (thorough: all 1024x1024 pairs), placed as root/element/key/value; each replayed at "
                    "every listed alignment; non-trivial = distinct text", nontrivial=total)


def replay(path):
    return T.replay_file(path)
