#!/usr/bin/env python3
"""Collect the results of scripts/seedtest.sh runs (files given on the command line, in chronological order)
into seeded/<seed>/meta.json (field detected_by) and print a table."""
import sys, re, json, os, glob
ROOT = os.path.dirname(os.path.dirname(os.path.abspath(__file__)))
res = {}
for f in sys.argv[1:]:
    for line in open(f, errors="replace"):
        m = re.match(r"^(C\d\d-\d+) vs (C\d\d) (\w+): (CAUGHT|MISSED|exit \d+)(.*)", line)
        if m:
            seed, prop, tier, verdict, rest = m.groups()
            first = ""
            m2 = re.search(r"# (.*)\)$", rest.strip())
            if m2:
                first = m2.group(1)[:160]
            v = verdict if verdict in ("CAUGHT", "MISSED") else "ERROR"
            old = res.setdefault(seed, {}).get(prop)
            # a later run replaces an earlier one, except that a tool error (two runs colliding on scratch directories)
            # never replaces a verdict, and a quick-tier CAUGHT is kept over a later thorough one
            if old and v == "ERROR" and old["verdict"] != "ERROR":
                continue
            res[seed][prop] = dict(tier=tier, verdict=v, first=first)
rows = []
for d in sorted(glob.glob(os.path.join(ROOT, "seeded", "C*-*"))):
    seed = os.path.basename(d)
    mp = os.path.join(d, "meta.json")
    meta = json.load(open(mp))
    if seed in res:
        meta["detected_by"] = res[seed]
        json.dump(meta, open(mp, "w"), indent=1)
    db = meta.get("detected_by") or {}
    caught = [p for p, v in db.items() if v["verdict"] == "CAUGHT"]
    missed = [p for p, v in db.items() if v["verdict"] != "CAUGHT"]
    rows.append((seed, ",".join(caught) or "-", ",".join(missed) or "-", (db[caught[0]]["first"] if caught else "")[:110]))
print("| seed | caught by (quick) | not caught by | first violation line |")
print("|---|---|---|---|")
for r in rows:
    print("| %s | %s | %s | %s |" % r)
print(f"\n{sum(1 for r in rows if r[1] != '-')} of {len(rows)} seeded changes caught; untested: {sum(1 for r in rows if r[1] == '-' and r[2] == '-')}")
