#!/usr/bin/env python3
"""Demonstration that the specification is bound to the code (DESIGN section 9): real traces recorded from the
library are accepted by TLC, and the same traces with one field corrupted / one event removed are rejected at the
right place.  Not a registered check; run with `python3 scripts/selftest.py`."""
import os, sys, json, subprocess
sys.path.insert(0, os.path.dirname(os.path.abspath(__file__)))
from vlib import *
import p_num as N
import p_dom as D
import c17


def main():
    ctx = Ctx("SELFTEST", "quick")
    ok = True

    def verdict(name, good):
        nonlocal ok
        print(("PASS " if good else "FAIL ") + name, flush=True)
        ok = ok and good

    # 1. pool events recorded under the allocator lock (hook H2) vs Trace_Pool
    plk = c17.mt_build(ctx, "prodlk-hook", "g++", ["-O2", "-DNDEBUG", "-DSONIC_LOCKED_ALLOCATOR", "-DSONIC_VERIF_HOOKS"])
    ev = os.path.join(ctx.work, "pool.ndjson")
    subprocess.run([plk, "pool", "3", "30", "7", ev], capture_output=True)
    lines = open(ev).read().splitlines()
    tcfg = "CONSTANTS\n  ChunkCap = 64\n  Adaptive = FALSE\n  MaxChunkCap = 256\n  UserBuf = 0\n  Sizes = {}\n  MaxBlocks = 0\n  MaxHandles = 1\n  MaxSteps = 0\n" \
           "INIT TInit\nNEXT TNext\nINVARIANT Inv\nPOSTCONDITION Accepted\nCHECK_DEADLOCK FALSE\n"

    def tp(path):
        r = ctx.tlc("Trace_Pool", cfg=tcfg, env=dict(TRACE=path), workers=1, timeout=600, tag="st_" + os.path.basename(path))
        return ("Postcondition Accepted" not in r["out"] and r["exit"] == 0), r["distinct"] - 1
    acc, m = tp(ev)
    verdict(f"Trace_Pool accepts the recorded lock-ordered trace ({len(lines)} events, matched {m})", acc and m == len(lines))
    k = next(i for i, l in enumerate(lines) if '"malloc"' in l and i > 10)
    e = json.loads(lines[k]); e["off"] += 8
    bad = os.path.join(ctx.work, "pool_bad.ndjson")
    open(bad, "w").write("\n".join(lines[:k] + [json.dumps(e)] + lines[k + 1:]) + "\n")
    acc, m = tp(bad)
    verdict(f"Trace_Pool rejects the trace with one offset corrupted at event {k + 1} (matched prefix {m})", (not acc) and m == k)
    # remove an event whose successor allocates from the same chunk (otherwise the removal leaves no trace in the log)
    k = next(i for i, l in enumerate(lines) if '"malloc"' in l and i > 10 and i + 1 < len(lines) and '"new":0' in lines[i + 1])
    drop = os.path.join(ctx.work, "pool_drop.ndjson")
    open(drop, "w").write("\n".join(lines[:k] + lines[k + 1:]) + "\n")
    acc, m = tp(drop)
    verdict(f"Trace_Pool rejects the trace with event {k + 1} removed (a missing hook) (matched prefix {m})", not acc)

    # 2. numeric events vs Trace_Num
    import p_numrun as R
    fails, events = R.record(ctx, "ftoa", ["3ff8000000000000", "3fb999999999999a", "4341c37937e08000", "0000000000000001", "7fefffffffffffff"], ["prod-avx2"], "st")
    evs = events["prod-avx2"]
    verdict("Trace_Num accepts recorded F64toa events", N.validate_events(ctx, evs, name="st_ok") == [])
    e = json.loads(json.dumps(evs[1])); e["out"][-1] = e["out"][-1] + 1 if e["out"][-1] < 57 else 48
    rej = N.validate_events(ctx, evs[:1] + [e] + evs[2:], name="st_bad")
    verdict("Trace_Num rejects exactly the event whose last digit was changed", len(rej) == 1 and rej[0] == e)

    # 3. allocation ledger vs Trace_Ownership
    recs = D.gen_behaviours(ctx, 2, 10, workers=2)
    rows = D.rows_of(recs[:20])
    f, ledgers, drift = D.replay(ctx, rows, ["prod-avx2"], allocs=("track",), name="st_dom")
    good = D.validate_ledgers(ctx, ledgers) == []
    verdict("Trace_Ownership accepts the ledger recorded while replaying Dom behaviours", good and not f)
    led = open(ledgers[0]).read().splitlines()
    k = next(i for i, l in enumerate(led) if '"free"' in l)
    b2 = os.path.join(ctx.work, "led_drop.ndjson")
    open(b2, "w").write("\n".join(led[:k] + led[k + 1:]) + "\n")
    badl = D.validate_ledgers(ctx, [b2])
    verdict(f"Trace_Ownership rejects the ledger with one free event removed (block never released)", len(badl) == 1)
    b3 = os.path.join(ctx.work, "led_dup.ndjson")
    open(b3, "w").write("\n".join(led[:k + 1] + [led[k]] + led[k + 1:]) + "\n")
    badl = D.validate_ledgers(ctx, [b3])
    verdict(f"Trace_Ownership rejects the ledger with one free event duplicated (double free) at event {k + 2}", len(badl) == 1 and badl[0][1] == k + 1)
    # 4. implementation-shaped models: the scanner model predicts the real scanner; a model that differs in one rule is noticed
    import p_od as O
    tmpl = "CONSTANTS\n  Sigma = %s\n  MaxLen = %d\n  Prune = FALSE\nINIT Init\nNEXT Next\nINVARIANT EmitOD\nCHECK_DEADLOCK FALSE\n"
    recs = ctx.tlc_emit("MC_SkipScan", cfg=tmpl % (O.SIG11, 3), tag="st_SkipScan", timeout=600, workers=1)
    rows = [[str(i), hexs(r["t"]), O.path_str(r["path"]), "0", "-"] for i, r in enumerate(recs)]
    fails, digs = O.replay_od(ctx, "c11", rows, ["prod-avx2"], [0], want_digest=True, name="st_skip")

    def drift_of(pred):
        n = 0
        for l in digs["prod-avx2"]:
            a = l.split("\t")
            r = pred[int(a[0])]
            err = int(a[2])
            cls = 100 if err in (4, 5, 6) else err
            if cls != r["err"] or (err == 0 and (int(a[3]) != r["start"] or int(a[4]) != r["len"])):
                n += 1
        return n
    verdict(f"SkipScan predicts error class and slice of the real scanner on {len(rows)} (byte string, path) cases", drift_of(recs) == 0 and len(rows) > 10000)
    # a model in which a backslash does not protect the following quote (one rule of SkipString changed)
    alt = []
    for r in recs:
        t = bytes(r["t"])
        alt.append(dict(r, err=(2 if (b'\\"' in t and r["err"] == 0) else r["err"])))
    verdict("a scanner model that differs in one rule (escaped quote) is noticed by the drift comparison", drift_of(alt) > 0)
    ctx.cleanup()
    print("SELFTEST", "OK" if ok else "FAILED")
    sys.exit(0 if ok else 1)


if __name__ == "__main__":
    main()
