"""C19 - ParseSchema updates exactly the members the existing document declares."""
import json
from vlib import *
import p_text as T
import p_merge as M


def contains_obj(v):
    if isinstance(v, dict):
        return True
    if isinstance(v, list):
        return any(contains_obj(x) for x in v)
    return False


def causes(E, V, depth=0):
    """Which of the recorded ParseSchema deviations (known_findings.json) can act on this pair: computed from the two
    values only, never from the observed result."""
    out = set()      # (no recorded deviation is left: the '{}' and array-holding-object shapes were repaired in /repo)
    if isinstance(E, dict) and E and isinstance(V, dict) and V:
        for k in E:
            if k in V:
                out |= causes(E[k], V[k], depth + 1)
    return out


def merge_ref(E, V):
    """SchemaMerge as the property states it (Python rendering, used only to compute what the second update of a sequence
    is applied to when attributing a failure to a recorded deviation)."""
    if isinstance(E, dict) and E and isinstance(V, dict) and V:
        return {k: (merge_ref(E[k], V[k]) if k in V else E[k]) for k in E}
    return V


def merge_dev(E, V):
    """SchemaMerge with the recorded deviation C19-empty-text-object built in: '{}' against a non-empty object keeps the
    object.  Used only to decide whether a failing case shows exactly that recorded deviation and nothing else."""
    if isinstance(E, dict) and E and isinstance(V, dict):
        if not V:
            return E
        return {k: (merge_dev(E[k], V[k]) if k in V else E[k]) for k in E}
    return V


def py_canon(v):
    """Accessor-walk tokens (harness/walk.h) of a Python JSON value."""
    import struct
    if v is None: return "n"
    if v is True: return "t"
    if v is False: return "f"
    if isinstance(v, int): return ("u:%d" % v) if v >= 0 else ("i:%d" % v)
    if isinstance(v, float): return "d:%016x" % struct.unpack("<Q", struct.pack("<d", v))[0]
    if isinstance(v, str): return "s:" + (v.encode("utf-8").hex() or "-")
    if isinstance(v, list): return " ".join(["["] + [py_canon(x) for x in v] + ["]"])
    out = ["{"]
    for k, x in v.items():
        out += ["k:" + (k.encode("utf-8").hex() or "-"), py_canon(x)]
    return " ".join(out + ["}"])


def run(tier):
    ctx = Ctx("C19", tier)
    q = ctx.quick
    builds = ["asan-avx2", "prod-avx2"] if q else ["asan-avx2", "prod-avx2", "asan-sse", "prod-dyn"]
    # design level: the handler's I-model against the property (spec/Schema.tla)
    M.mc_schema(ctx)
    recs = M.gen_pairs(ctx, 3, 3, 4, "Gen_Schema_33") if q else M.gen_pairs(ctx, 4, 3, 4, "Gen_Schema_43")
    # three declared keys with nested objects, text providing subsets in both orders plus an undeclared key
    recs += M.gen_pairs(ctx, 2, 2, 4, "Gen_Schema_wide3", smode="wide3", layv=0 if q else 2)
    # an object nested in a declared member with members updated in place or rebuilt, followed / preceded by a declared member
    recs += M.gen_pairs(ctx, 2, 2, 4, "Gen_Schema_nest2", smode="nest2")
    # names of every length with an escape at every block offset, matched against another spelling of the same name
    recs += M.gen_pairs(ctx, 2, 2, 4, "Gen_Schema_esckeys", smode="esckeys")
    # beyond the exhaustive bound: random growth + random edits (TLC simulation)
    recs += M.gen_rand(ctx, 6 if q else 60, 8, 3) + M.gen_rand(ctx, 3 if q else 30, 12, 5, layv=0 if q else 2)
    recs += M.gen_pairs(ctx, 3, 2, 4, "Gen_Schema_32_ws", laye=2, layv=3)            # whitespace layouts
    rows = [[str(i), hexs(r["e"]), hexs(r["v"]), T.canon(r["schema"]), T.canon(r["schema2"])] +
            ([hexs(r["v2"]), T.canon(r["schema12"])] if "v2" in r else []) for i, r in enumerate(recs)]
    # leak detection off here: the leak of the previous schema buffer on repeated ParseSchema is a C13 matter
    env = {"ASAN_OPTIONS": "detect_leaks=0:abort_on_error=0:exitcode=97:allocator_may_return_null=1"}
    f1 = M.run_merge(ctx, "schema", rows, builds, None, "", extra_env=env, tag="main")
    fails = list(f1)
    for b, idx, kind, detail in fails:
        row = rows[idx]
        e, v = bytes.fromhex(row[1]), bytes.fromhex(row[2])
        bk = "crash" if kind.startswith("crash") else kind.split(":")[-1]
        try:
            E, V = json.loads(e), json.loads(v)
            cs = set(causes(E, V))
            if bk == "merge12":
                cs |= causes(merge_ref(E, V), json.loads(bytes.fromhex(row[5])))
            cs = sorted(cs)
            # the '{}' deviation has a definite outcome: a failing case counts as that recorded finding only if the
            # observed document is exactly what the deviation predicts (anything else on such a pair is something new)
            if cs == ["empty-text-object-vs-nonempty-object"] and bk in ("merge", "merge2", "merge12") and " got=" in detail:
                got = detail.split(" got=", 1)[1].strip()
                pred = merge_dev(E, V) if bk == "merge" else merge_dev(merge_dev(E, V), V) if bk == "merge2" else \
                    merge_dev(merge_dev(E, V), json.loads(bytes.fromhex(row[5])))
                if got != py_canon(pred):
                    cs = ["empty-text-object-vs-nonempty-object+unpredicted-result"]
        except Exception:
            cs = ["unparsed"]
        ctx.add_fail(dict(property="C19", kind=bk, sig=(kind if bk == "crash" else bk), build=b, allocator=kind.split(":")[0], detail=detail,
                          shape=dict(cause=cs[0] if len(cs) == 1 else ("+".join(cs) if cs else "none"),
                                     effect="memory" if bk in ("crash", "accessor", "dump") else "value"),
                          case=dict(existing=e.decode("latin1"), text=v.decode("latin1"), expected=row[3]),
                          replay=dict(harness="rt_merge.cpp", mode="schema", row=row)))
    ctx.traces += len(rows) * len(builds)
    ctx.samples += [dict(existing=bytes.fromhex(r[1]).decode("latin1"), text=bytes.fromhex(r[2]).decode("latin1"), expected=r[3]) for r in rows[100:103]]
    ctx.extra.update(pairs=len(rows), builds=builds)
    ctx.assumptions += ["R-model Gen_Schema!SchemaMerge (from the property text); duplicate-free values only"]
    ctx.finish(rule="TLC enumerates every pair of duplicate-free values up to a node bound (all kind combinations at the root and at matched keys) "
                    "with SchemaMerge; Document::Parse(existing) then ParseSchema(text) once and twice, pool and freeing allocator, under ASan; "
                    "non-trivial = distinct pair", nontrivial=len(rows))


def replay(path):
    rec = json.load(open(path))
    ctx = Ctx("C19-replay", "quick")
    fails = M.run_merge(ctx, "schema", [rec["replay"]["row"]], ["asan-avx2", "prod-avx2"], None, "")
    for f in fails:
        print(f)
    ctx.cleanup()
    return 1 if fails else 0
