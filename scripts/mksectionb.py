#!/usr/bin/env python3
"""Rewrites section B of DESIGN.md (per property: what decides it) with the wall times of the last quick pass
(read from evidence/<ID>.json)."""
import json, os
ROOT = os.path.dirname(os.path.dirname(os.path.abspath(__file__)))
ROWS = {
 "C01": ("`MC_ParserPDA` (`AcceptEquiv`, `ResultOk`, `ClassOk`); `Gen_Bytes` (all strings <= 3 over 16 symbols, viable prefixes <= 5; control, literal and escape alphabets), `Gen_Tokens` (23 good + 37 junk tokens), `Gen_Atoms` (overflow threshold at every mantissa length, zero mantissas), `Gen_Values`, `Gen_BigC`, `Gen_Strings`, `Gen_Unicode`, `Gen_Deep`, `Gen_Mut` (18 and 256 symbols); `ShiftRule`; `MC_Sonic`",
         "`rt_parse`: Parse into pool + freeing documents, fresh + reused, 8 alignments, 3 builds (thorough 24 alignments, 6 builds): accept/reject, code 0 / offset = len, IsNull, code class by `FaultScope`, offset range; `rt_sax` drift; life-cycle replay"),
 "C02": ("same corpora + dense `Gen_Deep` (every depth 0..40, 8 bodies incl. a key at the capacity edge; prefixed nestings to depth 130); `ParserPDA!StackSafe`",
         "`rt_parse` under ASan+LSan, with hook H1 poison (`hook-*`, `asanhook-*`), reused documents destroyed every 64 cases"),
 "C03": ("`Gen_Values` (3 pools, 5 layouts, wide containers), `Gen_BigC` (1024+ members), `Gen_Deep` (valid, prefixed), `Gen_Atoms`, `Gen_Bytes`, `Gen_Tokens`; `SpecRoundTrip`; `Sonic!ParseOk`",
         "accessor walk (`walk.h`) = `Denote`; every double judged by `Trace_Num` (`RoundsTo`); life-cycle replay (Parse on documents with a history)"),
 "C04": ("`Gen_Numbers` structural classes; relations `NumberLex`/`Rounding` in `Trace_Num`",
         "`rec_num parse`: exact midpoints, continued-fraction hard cases per table row (4 digit ranges), zero mantissas of every length, overflow threshold at every mantissa length, boundaries; root/element/member/after-blanks placements"),
 "C05": ("`Gen_Strings` (26 items x offsets 0..66, pairs), `Gen_Unicode` (all 65536 + grid; thorough all pairs), escape alphabet; `ContextIndependent`",
         "`rt_parse` at alignments 0..32; on-demand keys through C10"),
 "C06": ("`MC_WriteBuf` (`NoOverflow`, every starting capacity, VecLen 16/32); texts from `Gen_Values`/`Gen_Strings`/`Gen_Quote`; `Trace_Num` kind `ser`; `Sonic!RoundTrip`",
         "`rt_ser`: ~30 start capacities (every capacity for the tight families: 6x-expanding strings, longest numbers behind fillers), reused buffer, library round trip, API-rebuilt document, non-finite planted at each number; `rt_wb` drift; life-cycle Dump"),
 "C07": ("`Trace_Num` kind `ftoa` (`Shortest!IsShortestRoundTrip`, format clauses)",
         "`rec_num ftoa`: every binary exponent x random + boundary significands, decades, powers of two, switches, CF hard cases (4 digit ranges); Serialize equal, library reads back"),
 "C08": ("`Gen_Numbers` (int), `Trace_Num` kind `itoa`",
         "`rec_num itoa` + `sweep_itoa` (all 10^8 low-group values subsampled, every leading part 1..9999 and 1..1844)"),
 "C09": ("`Gen_Quote` (+`SpecOk`), `Trace_Num` kind `quote` (`IsQuotingOf`)",
         "`rt_quote`: heap source, 15 page-end gaps x 2 garbage fillings, canaries at 6n+35, Serialize"),
 "C10": ("`MC_SkipScan` (`Equiv`: all strings <= 4 over 11 symbols, viable prefixes <= 7; `ODEquiv` on every generated case); `Gen_OnDemand`, `Gen_OnDemandStr`, `Gen_RandOD` (simulation: trees grown by random insertions, a resolving and a missing path per node)",
         "`rt_ondemand c10`: GetOnDemand (heap / page-end / page-start), ParseOnDemand, AtPointer; SkipScan drift on 161k cases"),
 "C11": ("`MC_SkipScan` (`InBounds`); byte strings, tokens, mutants, string prefixes",
         "`rt_ondemand c11` on exact-size and guard-page buffers, 8 paths"),
 "C12": ("`MC_Dom` exhaustive (157k states quick): `Refines`, `MapOk`, `CapOk`, `LookupOk`, `OwnOk`; `Gen_Dom` simulation + exhaustive object/map sequences (`FNext`); `MC_Sonic`, `Gen_Sonic`",
         "`rt_dom` on pool + tracking allocator: walk, absent and present lookups through every overload, Dump after every step; parse / dump steps on a real Document"),
 "C13": ("`LedgerOk`/`SLedgerOk`; `MC_Document` (`Exact`, `NoDangling`, `NoLeak` for the code's design; three rejected designs - among them the code before db00191 - shown to leak or dangle); `Trace_Ownership`",
         "`rt_dom` + `rt_doc` with `TrackAllocator` (ledger, poison) and SimpleAllocator under ASan; snapshot independence"),
 "C14": ("`Gen_MemCmp` (`LessIsStrictOrder`)", "`rt_memcmp`: 13 x 13 page-end gaps, both overloads, map lookup, sse/dyn"),
 "C15": ("corpora of C01/C03/C05 + on-demand corpora", "digests across six binaries + partial oracle failures"),
 "C16": ("`MC_Pool` per configuration (simple/adaptive/user buffer aligned+misaligned, non-granule capacity); `Gen_Pool`",
         "`rt_pool` on `MemoryPoolAllocator<TrackBase>`"),
 "C17": ("`MC_PoolMT` (2x3, 3x2 locked: safety + termination; unlocked: overlap found); `Trace_Pool`",
         "`rt_mt`: locked pool with hook H2 traces, TSan thread programs for the three clauses incl. the single-threaded corpora run concurrently"),
 "C18": ("`EqOk` in `MC_Dom` / `MC_Sonic` (`IEq` = `REq`, both directions, copy)",
         "`rt_dom`: ==, != vs `REq` after every step, reflexivity, cross-allocator copy, parse of Dump"),
 "C19": ("`MC_Schema` (`ModelOk`: handler I-model = `SchemaMerge`; the handlers before the three repairs kept as parameters and shown to deviate); `Gen_Schema` pairs (78k), wide3, nest2, esckeys, layouts; `Gen_RandMerge` (simulation, update sequences); `Idempotent`",
         "`rt_merge schema`: Parse + ParseSchema once / twice / two different texts, pool + freeing allocator, ASan"),
 "C20": ("`Gen_Schema` pairs, wide3, nest2, esckeys, widearr, layouts; `Gen_RandMerge`",
         "`rt_merge lazy`: UpdateLazy on exact-size buffers, ASan"),
}


def main():
    lines = ["## B. Per property: what decides it (as built)", "",
             "Wall times are those of the last quick pass on the idle 16-core machine (from `evidence/<ID>.json`).", "",
             "| prop | TLC side | conformance side | quick wall | states / transitions / replayed |", "|---|---|---|---|---|"]
    for p in sorted(ROWS):
        ev = {}
        try:
            ev = json.load(open(os.path.join(ROOT, "evidence", p + ".json")))
        except Exception:
            pass
        wall = ev.get("wall_clock_s") or ev.get("wall_s") or ev.get("wall") or "?"
        cov = ev.get("coverage", ev)
        st = cov.get("states", "?") if isinstance(cov, dict) else "?"
        tr = cov.get("transitions", "?") if isinstance(cov, dict) else "?"
        tv = cov.get("traces_validated_against_impl", "?") if isinstance(cov, dict) else "?"
        lines.append(f"| {p} | {ROWS[p][0]} | {ROWS[p][1]} | {wall if wall == '?' else str(int(float(wall))) + ' s'} | {st} / {tr} / {tv} |")
    sec = "\n".join(lines) + "\n\n"
    path = os.path.join(ROOT, "DESIGN.md")
    s = open(path).read()
    a = s.index("## B. Per property")
    b = s.index("## C. Defects found")
    open(path, "w").write(s[:a] + sec + s[b:])


if __name__ == "__main__":
    main()
