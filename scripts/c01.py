"""C01 - Parse accepts exactly the RFC 8259 language and reports failure coherently."""
from vlib import *
import p_text as T
import p_dom as D
import p_pda as P

PADS_Q = [0, 1, 31, 32, 33, 63, 64, 65]
# every offset within the first 8-byte word and around each 16/32/64-byte block edge (all 71 offsets cost hours; the
# ShiftRule invariant of the R-model says the verdict cannot depend on the offset)
PADS_T = [0, 1, 2, 7, 8, 15, 16, 31, 32, 33, 63, 64]


def run(tier):
    ctx = Ctx("C01", tier)
    q = ctx.quick
    builds = ["prod-avx2", "asan-avx2", "prod-sse"] if q else \
        ["prod-avx2", "asan-avx2", "prod-sse", "asan-sse", "prod-dyn", "asan-dyn"]
    pads = PADS_Q if q else PADS_T
    # design level: the I-model of parseImpl + node stack accepts exactly the R-model's language (every string up to a
    # bound, state by state), and the real parser follows the I-model event by event (DRIFT only)
    r, bad = P.mc_accept(ctx, 4 if q else 5)
    if bad:
        ctx.add_fail(dict(property="C01", kind="model", sig="model:ParserPDA", shape=dict(kind="model"), build="tlc",
                          detail="ParserPDA invariants violated: " + r["out"][-1500:], case={}, replay=dict(harness="MC_ParserPDA")))
    P.drift(ctx, 4 if q else 5, builds[:2])
    corpora = T.corpora(ctx, "C01")
    total = 0
    for name, rows in corpora:
        fails, _, _ = T.replay_parse(ctx, rows, builds, pads, name=name)
        T.record_fails(ctx, rows, fails, T.OWN["C01"], name)
        total += len(rows)
        ctx.traces += len(rows) * len(builds)
        ctx.log(f"replayed corpus {name}: {len(rows)} texts x {len(pads)} alignments x {len(builds)} builds "
                f"x 4 documents; failures so far {len(ctx.fail)}")
        for r in rows[:2] + rows[-1:]:
            ctx.samples.append(dict(corpus=name, **T.describe(r)))
    # life cycle (spec/Sonic.tla): accept / reject verdicts of Parse on a document with a history (reuse after success and failure)
    D.lifecycle(ctx, "C01", builds[:2], 2 if q else 12, 25 if q else 40, 3)
    ctx.extra.update(replayed_cases=total, builds=builds, alignments=pads)
    ctx.assumptions += [
        "R-model spec/JsonText.tla (RFC 8259 recogniser; string grammar = DecodeString defined; overflow by Rounding.tla) is the only oracle",
        "exhaustive only inside the stated alphabets/lengths; alignment amplification justified by the ShiftRule invariant",
    ]
    ctx.finish(rule="TLC enumerates byte strings (every string up to FullLen, every viable prefix up to MaxLen, "
                    "token sequences, single-byte mutants) and judges each with JsonText!ParseText; each is replayed "
                    "through Document::Parse (pool + freeing allocator, fresh + reused document) at every listed alignment "
                    "in every build; non-trivial = distinct text", nontrivial=total)


def replay(path):
    import json
    if json.load(open(path)).get("replay", {}).get("harness") == "rt_dom.cpp":
        return D.replay_file(path)
    return T.replay_file(path)
