#!/bin/bash
# scripts/seedqueue.sh <out-file> seed:PROP[:tier] ...   (sequential)
O=$1; shift
for x in "$@"; do IFS=: read s p t <<< "$x"; /verif/scripts/seedtest.sh $s $p ${t:-quick} >> $O 2>&1; done
echo QUEUE-DONE >> $O
