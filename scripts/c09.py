"""C09 - String quoting is exact for all bytes and never strays outside its buffers."""
import os, json
from vlib import *
import p_text as T
import p_num as N


def gen(ctx, mode, AS, BS, CS, tag):
    cfg = f"CONSTANTS Mode = \"{mode}\" AS = {T.fmtset(AS)} BS = {T.fmtset(BS)} CS = {T.fmtset(CS)}\nINIT Init\nNEXT Next\nINVARIANT Emit\nINVARIANT SpecOk\nCHECK_DEADLOCK FALSE\n"
    recs = ctx.tlc_emit("Gen_Quote", cfg=cfg, tag=tag, timeout=1500, xmx="8g")
    ctx.log(f"{tag}: {len(recs)} byte strings with their canonical quoting (SpecOk model-checked)")
    return recs


def run(tier):
    ctx = Ctx("C09", tier)
    q = ctx.quick
    builds = ["prod-avx2", "asan-avx2", "prod-sse", "asan-sse"] if q else ["prod-avx2", "asan-avx2", "prod-sse", "asan-sse", "prod-dyn", "asan-dyn"]
    offs = [0, 1, 14, 15, 16, 17, 30, 31, 32, 33, 47, 63, 64, 65]
    recs = gen(ctx, "all", offs if not q else [0, 1, 15, 16, 31, 32, 33], [0], [0], "Gen_Quote_all")
    recs += gen(ctx, "plain", [0], [0], [0], "Gen_Quote_plain")
    recs += gen(ctx, "pairs", [0, 15, 31] if q else [0, 1, 15, 16, 31, 32], [0, 1, 14] if q else [0, 1, 13, 14, 15, 29, 30, 31], [0, 1] if q else [0, 1, 17], "Gen_Quote_pairs")
    recs += gen(ctx, "runs", offs, [0], [0, 1, 2, 3, 5, 30], "Gen_Quote_runs")
    rows = [[str(i), hexs(r["in"]), hexs(r["q"])] for i, r in enumerate(recs)]
    bins = ctx.build("rt_quote.cpp", builds)
    nsh = 4
    per = (len(rows) + nsh - 1) // nsh
    jobs = []
    for s in range(nsh):
        p = os.path.join(ctx.work, f"quote_{s}.tsv")
        T.write_rows(p, rows[s * per:(s + 1) * per])
        for b in builds:
            jobs.append((b, s, p, s * per))

    def one(job):
        b, s, p, base = job
        ev = os.path.join(ctx.work, f"quote_ev_{b}_{s}.ndjson")
        f, other, n = run_cases(ctx, bins[b], [ev], p, b, timeout=1500)
        return b, base, f, n, ev

    events, seen = [], set()
    for b, base, f, n, ev in parallel(one, jobs):
        ctx.evals += n
        for idx, kind, detail in f:
            base_kind = "crash" if kind.startswith("crash") else kind
            row = rows[min(base + idx, len(rows) - 1)]
            ctx.add_fail(dict(property="C09", kind=base_kind, sig=(kind if base_kind == "crash" else base_kind), shape=dict(kind=base_kind), build=b, detail=detail,
                              case=dict(input=list(bytes.fromhex(row[1])) if row[1] != "-" else []), replay=dict(harness="rt_quote.cpp", row=row)))
        if os.path.exists(ev):
            for l in open(ev):
                if l.strip() and l not in seen:
                    seen.add(l)
                    try:
                        e = json.loads(l)
                    except ValueError:
                        continue            # torn last line of a crashed recorder
                    e["_b"] = b
                    events.append(e)
    builds_of = {json.dumps({k: v for k, v in e.items() if k != "_b"}, sort_keys=True): e["_b"] for e in events}
    evs = [{k: v for k, v in e.items() if k != "_b"} for e in events]
    noncanon = sum(1 for e in evs)
    rej = N.validate_events(ctx, evs, name="c09", per_shard=2000, workers_per=1)
    for e in rej:
        ctx.add_fail(dict(property="C09", kind="relation", sig="relation:quote", shape=dict(kind="relation"), build=builds_of.get(json.dumps(e, sort_keys=True), "?"),
                          detail="bytes %s quoted as %s: not quote + per-byte images + quote" % (bytes(e["in"]).hex(), repr(bytes(e["out"]))[:160]),
                          case=e, replay=dict(harness="Trace_Num", event=e)))
    ctx.traces += len(rows) * len(builds)
    ctx.log(f"{len(rows)} inputs x {len(builds)} builds (x 15 page-end gaps x 2 garbage fillings in production builds); {noncanon} events validated by TLC; failures {len(ctx.fail)}")
    ctx.samples += [dict(input=r["in"], canonical=r["q"]) for r in recs[:2] + recs[-1:]]
    ctx.extra.update(inputs=len(rows), builds=builds)
    ctx.assumptions += ["out-of-bounds reads are observed by PROT_NONE guard pages (production tail path) and ASan (sanitizer tail path); TLC cannot see a stray load",
                        "outputs equal to the canonical quoting Render!Quote are accepted because TLC model-checked Gen_Quote!SpecOk for every generated input; every other output is judged by Render!IsQuotingOf"]
    ctx.finish(rule="TLC generates byte strings (every byte value at offsets across 16/32-byte blocks, pairs and runs of specials, plain strings of "
                    "every length 0..140) with the canonical quoting; each is quoted by internal::Quote from a heap source and from sources "
                    "ending 0..100 bytes before an unmapped page with two garbage fillings, and through Serialize; non-trivial = distinct input",
               nontrivial=len(rows))


def replay(path):
    rec = json.load(open(path))
    ctx = Ctx("C09-replay", "quick")
    rp = rec["replay"]
    if rp["harness"] == "Trace_Num":
        rej = N.validate_events(ctx, [rp["event"]], name="replay")
        print("TLC verdict:", "REJECTED" if rej else "accepted")
        ctx.cleanup()
        return 1 if rej else 0
    p = os.path.join(ctx.work, "r.tsv")
    T.write_rows(p, [rp["row"]])
    bins = ctx.build("rt_quote.cpp", ["prod-avx2", "asan-avx2", "prod-sse"])
    bad = 0
    for b, path_ in bins.items():
        f, other, n = run_cases(ctx, path_, [os.path.join(ctx.work, "ev_" + b)], p, b)
        for x in f:
            print(b, x)
            bad += 1
    ctx.cleanup()
    return 1 if bad else 0
