"""C08 - 64-bit integers print as their exact decimal representation."""
import os, subprocess
from vlib import *
import p_numgen as G
import p_numrun as R


def describe(ev):
    return "integer %s%s printed as '%s'" % ("-" if ev["neg"] else "", "".join(map(str, ev["dg"])), bytes(ev["out"]).decode("latin1"))


def run(tier):
    ctx = Ctx("C08", tier)
    q = ctx.quick
    builds = ["prod-avx2", "asan-sse"] if q else ["prod-avx2", "asan-avx2", "prod-sse", "prod-dyn"]
    recs = ctx.tlc_emit("Gen_Numbers", cfg='CONSTANTS Mode = "int"\nINIT Init\nNEXT Next\nINVARIANT Emit\nCHECK_DEADLOCK FALSE\n', tag="Gen_Numbers_int", timeout=900)
    structural = []
    for r in recs:
        s = bytes(r["t"]).decode()
        v = int(s)
        if -2 ** 63 <= v < 2 ** 64 and (v >= 0 or True):
            structural.append(str(v))
    inputs = sorted(set(structural)) + G.c08_inputs(ctx.rng, q)
    n = R.run_numeric(ctx, "itoa", inputs, builds, "c08", describe)
    # amplification (explicitly outside TLC, DESIGN 4/C08): all 10^8 values of the low 8-digit group and of the
    # second group against a transliteration of Trace_Num!ItoaOk; the transliteration itself is validated by TLC
    # through the events above (same code path: rec_num -> itoa events)
    bins = ctx.build("sweep_itoa.cpp", ["prod-avx2"] if q else ["prod-avx2", "prod-sse"])
    for b, path in bins.items():
        p = subprocess.run([path, "20000000" if q else "100000000"], capture_output=True, text=True, timeout=3000)
        ctx.evals += int((p.stdout.strip().split() or ["0"])[-1]) if p.returncode == 0 else 0
        if p.returncode != 0:
            ctx.add_fail(dict(property="C08", kind="sweep", sig="sweep", shape=dict(kind="sweep"), build=b,
                              detail="8-digit group sweep: " + p.stdout.strip()[:300], case=dict(output=p.stdout[:600]),
                              replay=dict(harness="sweep_itoa.cpp")))
        ctx.log(f"amplification sweep [{b}]: {p.stdout.strip()[:120]}")
    ctx.extra.update(inputs=len(inputs), builds=builds)
    ctx.assumptions += ["verdict for the recorded events by TLC (Trace_Num!ItoaOk: optional '-', then exactly the digits)",
                        "the 10^8-value group sweeps are an amplification outside TLC (a C++ transliteration of ItoaOk)"]
    ctx.finish(rule="values: TLC structural classes (digit count x zero/nine group patterns), every 10^k-1/10^k/10^k+1 and 2^k+-1, 8-digit group "
                    "patterns at each group position, random per digit count; printed by U64toa/I64toa and Dump, re-parsed (kind kept); "
                    "each event validated by TLC; non-trivial = distinct event", nontrivial=n)


def replay(path):
    return R.replay_file(path, "itoa")
