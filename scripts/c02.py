"""C02 - Parse is total and memory-safe on arbitrary bytes for every allocator kind."""
from vlib import *
import p_text as T
import p_pda as P


def run(tier):
    ctx = Ctx("C02", tier)
    q = ctx.quick
    # asan: exact heap bounds + leaks; hook: production path with the poisoned node stack (H1);
    # prod: the unhooked production path (page-guard-free, relies on crashes only)
    builds = ["asan-avx2", "hook-avx2", "asanhook-avx2", "prod-sse"] if q else \
        ["asan-avx2", "hook-avx2", "asanhook-avx2", "prod-avx2", "asan-sse", "hook-sse", "asan-dyn", "hook-dyn"]
    pads = [0, 1, 33] if q else [0, 1, 31, 32, 33, 63, 64, 65]
    # design level: node-stack safety of the I-model (np <= cap, End* moves only pushed cells, TearDown meets only
    # constructed cells) for every input up to a bound, with the capacity floor lowered so that refusal is reached
    r, bad = P.mc_refusal(ctx, 7 if q else 8)
    if bad:
        ctx.add_fail(dict(property="C02", kind="model", sig="model:ParserPDA", shape=dict(kind="model"), build="tlc",
                          detail="ParserPDA StackSafe violated: " + r["out"][-1500:], case={}, replay=dict(harness="MC_ParserPDA")))
    corpora = T.corpora(ctx, "C02")
    total = 0
    for name, rows in corpora:
        fails, _, _ = T.replay_parse(ctx, rows, builds, pads, name=name)
        T.record_fails(ctx, rows, fails, T.OWN["C02"] | {"model"}, name)
        total += len(rows)
        ctx.traces += len(rows) * len(builds)
        ctx.log(f"replayed corpus {name}: {len(rows)} texts x {len(pads)} alignments x {len(builds)} builds; "
                f"failures so far {len(ctx.fail)}")
        for r in rows[:1] + rows[-1:]:
            ctx.samples.append(dict(corpus=name, **T.describe(r)))
    ctx.extra.update(replayed_cases=total, builds=builds, alignments=pads)
    ctx.assumptions += [
        "memory-safety is observed on the implementation by ASan/LSan, by SIGSEGV, and by the H1 poison hook while "
        "replaying TLC-generated inputs; TLC itself cannot see a stray load (DESIGN section 6)",
        "each case is parsed into a reused and a fresh document of both allocator kinds; documents are destroyed every 64 cases",
    ]
    ctx.finish(rule="every TLC-generated text (byte strings, deep/uneven nesting) parsed into pool and freeing-allocator "
                    "documents (fresh and reused across failures) under ASan+LSan and with the poisoned node stack; a "
                    "signal, sanitizer report or leak is a violation; non-trivial = distinct text", nontrivial=total)


def replay(path):
    return T.replay_file(path)
