"""C07 - Finite doubles print as the shortest decimal that reads back to the same double."""
from vlib import *
import p_numgen as G
import p_numrun as R


def describe(ev):
    return "double %04x%04x%04x%04x printed as '%s': not a JSON number with fraction/exponent of at most 32 bytes that is the shortest, closest round-tripping decimal" % (
        tuple(ev["w"]) + (bytes(ev["out"]).decode("latin1"),))


def run(tier):
    ctx = Ctx("C07", tier)
    q = ctx.quick
    builds = ["prod-avx2", "asan-sse"] if q else ["prod-avx2", "asan-avx2", "prod-sse", "prod-dyn"]
    inputs = G.c07_inputs(ctx.rng, q)
    n = R.run_numeric(ctx, "ftoa", inputs, builds, "c07", describe)
    ctx.extra.update(inputs=len(inputs), builds=builds)
    ctx.assumptions += ["verdicts by TLC: Shortest!IsShortestRoundTrip (reads back, no shorter decimal in the rounding interval, closest among "
                        "same-length candidates) and the format clauses, on exact BigNat arithmetic", "sample of 2^64 inputs (DESIGN section 6)"]
    ctx.finish(rule="bit patterns: every binary exponent x boundary/random significands, every decade 1e-323..1e308 (one table entry each) "
                    "with neighbours, all powers of two +-1ulp, integers near 2^53 and the 1e21/1e-6 switches, single-precision values, "
                    "subnormals of every length, random; printed by F64toa and Serialize, parsed back by the library, each event "
                    "validated by TLC; non-trivial = distinct event", nontrivial=n)


def replay(path):
    return R.replay_file(path, "ftoa")
