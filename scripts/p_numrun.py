"""Shared driver of the numeric checks: record events with harness/rec_num.cpp in several builds,
validate them with TLC (Trace_Num)."""
import os, json
from vlib import *
import p_num as N


def record(ctx, mode, inputs, builds, name):
    bins = ctx.build("rec_num.cpp", builds)
    nsh = max(1, min(8, len(inputs) // 500))
    per = (len(inputs) + nsh - 1) // nsh
    jobs = []
    for s in range(nsh):
        part = inputs[s * per:(s + 1) * per]
        if not part:
            continue
        p = os.path.join(ctx.work, f"{name}_in_{s}.txt")
        with open(p, "w") as f:
            f.write("\n".join(part) + "\n")
        for b in builds:
            jobs.append((b, s, p, s * per))

    def one(job):
        b, s, p, base = job
        ev = os.path.join(ctx.work, f"{name}_ev_{b}_{s}.ndjson")
        f, other, n = run_cases(ctx, bins[b], [mode, ev], p, b, timeout=1500)
        return b, base, f, n, ev

    fails, events = [], {}
    for b, base, f, n, ev in parallel(one, jobs):
        ctx.evals += n
        for idx, kind, detail in f:
            fails.append((b, base + idx, kind, detail))
        if os.path.exists(ev):
            for l in open(ev):
                if l.strip():
                    try:
                        events.setdefault(b, []).append(json.loads(l))
                    except ValueError:
                        pass                # torn last line of a crashed recorder
    return fails, events


def run_numeric(ctx, mode, inputs, builds, name, describe):
    fails, events = record(ctx, mode, inputs, builds, name)
    for b, idx, kind, detail in fails:
        base = "crash" if kind.startswith("crash") else kind
        ctx.add_fail(dict(property=ctx.prop, kind=base, sig=(kind if base == "crash" else base), shape=dict(kind=base), build=b,
                          detail=detail, case=dict(input=inputs[min(idx, len(inputs) - 1)]),
                          replay=dict(harness="rec_num.cpp", mode=mode, input=inputs[min(idx, len(inputs) - 1)])))
    # events of all builds, deduplicated: identical (input, result) pairs are judged once
    uniq, order = {}, []
    for b in builds:
        for ev in events.get(b, []):
            k = json.dumps(ev, sort_keys=True)
            if k not in uniq:
                uniq[k] = (ev, b)
                order.append(k)
    evs = [uniq[k][0] for k in order]
    ctx.log(f"{name}: {len(inputs)} inputs x {len(builds)} builds -> {len(evs)} distinct events to validate with TLC")
    rej = N.validate_events(ctx, evs, name=name, per_shard=1500, workers_per=1)
    for ev in rej:
        k = json.dumps(ev, sort_keys=True)
        ctx.add_fail(dict(property=ctx.prop, kind="relation", sig="relation:" + ev["k"], shape=dict(kind="relation"), build=uniq.get(k, (None, "?"))[1],
                          detail=describe(ev), case=ev, replay=dict(harness="Trace_Num", event=ev)))
    ctx.samples += evs[:3] + evs[-2:]
    return len(evs)


def replay_file(path, mode):
    rec = json.load(open(path))
    ctx = Ctx(rec["property"] + "-replay", "quick")
    rp = rec["replay"]
    if rp["harness"] == "Trace_Num":
        rej = N.validate_events(ctx, [rp["event"]], name="replay")
        print("event:", json.dumps(rp["event"]))
        print("TLC verdict:", "REJECTED" if rej else "accepted")
        ctx.cleanup()
        return 1 if rej else 0
    fails, events = record(ctx, rp["mode"], [rp["input"]], ["prod-avx2", "asan-avx2", "prod-sse"], "replay")
    allev = [e for b in events for e in events[b]]
    rej = N.validate_events(ctx, allev, name="replay")
    print("input:", rp["input"], "direct failures:", fails, "TLC rejected:", rej)
    ctx.cleanup()
    return 1 if (fails or rej) else 0
