"""Numeric trace validation: events recorded from the implementation are judged by TLC with the
exact relations of spec/Rounding.tla, Shortest.tla, Itoa.tla (module Trace_Num)."""
import os, json
from vlib import *


def words16(bits):
    return [(bits >> 48) & 0xFFFF, (bits >> 32) & 0xFFFF, (bits >> 16) & 0xFFFF, bits & 0xFFFF]


def pair_to_event(p):
    """'neg:digits:e10 bitshex' (rt_parse pairs file) -> event"""
    a, b = p.split()
    neg, ds, e = a.split(":")
    return dict(k="parse", neg=int(neg), d=[int(c) for c in ds], e=int(e), w=words16(int(b, 16)))


def validate_events(ctx, events, name="num", per_shard=4000, workers_per=2, timeout=3000):
    """Run Trace_Num over the events (sharded).  Returns the list of rejected events."""
    if not events:
        return []
    shards = [events[i:i + per_shard] for i in range(0, len(events), per_shard)]
    # use all cores: fewer, larger shards would leave cores idle
    if len(shards) < NCPU // workers_per and len(events) > 200:
        n = max(1, min(NCPU // workers_per, len(events) // 100))
        per = (len(events) + n - 1) // n
        shards = [events[i:i + per] for i in range(0, len(events), per)]

    def one(ix):
        sh = shards[ix]
        tp = os.path.join(ctx.work, f"{name}_trace_{ix}.ndjson")
        rp = os.path.join(ctx.work, f"{name}_rej_{ix}.ndjson")
        with open(tp, "w") as f:
            for ev in sh:
                f.write(json.dumps(ev) + "\n")
        r = ctx.tlc("Trace_Num", env=dict(TRACE=tp, OUT=rp), workers=workers_per, timeout=timeout,
                    extra=["-continue"], tag=f"Trace_Num_{name}_{ix}", xmx="3g", check=True)
        rej = []
        if os.path.exists(rp):
            seen = set()
            for line in open(rp):
                line = line.strip()
                if line and line not in seen:
                    seen.add(line)
                    rej.append(json.loads(json.loads(line))["ev"])
        # TLC's own verdict must agree with the reject list
        violated = "is violated" in r["out"]
        if violated != bool(rej):
            ctx.abort(f"Trace_Num shard {ix}: TLC verdict ({violated}) and reject list ({len(rej)}) disagree")
        if r["distinct"] != len(sh) and r["distinct"] != len({json.dumps(e, sort_keys=True) for e in sh}):
            ctx.abort(f"Trace_Num shard {ix}: {r['distinct']} states for {len(sh)} events")
        return rej

    out = []
    for rej in parallel(one, range(len(shards)), workers=max(1, NCPU // workers_per)):
        out += rej
    ctx.traces += len(shards)
    ctx.extra["numeric_events_validated"] = ctx.extra.get("numeric_events_validated", 0) + len(events)
    return out
