"""C10 - On-demand lookup returns exactly what full parsing plus pointer lookup returns."""
from vlib import *
import p_text as T
import p_od as O

OWN = {"missed", "phantom", "slice-value", "slice-unparsable", "slice-range", "offset-range", "target-not-cleared",
       "value", "placement", "code-range", "crash"}


def run(tier):
    ctx = Ctx("C10", tier)
    q = ctx.quick
    builds = ["prod-avx2", "asan-avx2", "prod-sse"] if q else \
        ["prod-avx2", "asan-avx2", "prod-sse", "asan-sse", "prod-dyn", "asan-dyn"]
    pads = [0, 1, 31, 33, 63, 64] if q else [0, 1, 2, 7, 8, 15, 16, 31, 32, 33, 63, 64]
    F = T.fmtset
    # (thorough: deeper paths and more layouts; the node bounds of the quick tier are kept - one more node multiplies the
    # number of (tree, path) cases by about 30 and does not finish in an hour)
    plans = [dict(MaxNodes=3, Pool=3, Layouts=F([0, 2]), Wide="FALSE", D=2 if q else 3),
             dict(MaxNodes=4, Pool=0, Layouts=F([0, 3] if q else [0, 1, 3, 4]), Wide="FALSE", D=2),
             dict(MaxNodes=1, Pool=0, Layouts=F([0, 3, 4]), Wide="TRUE", D=2),
             dict(MaxNodes=2, Pool=2, Layouts=F([0, 1]), Wide="FALSE", D=2)]
    # design level: the scanner's I-model against Lookup (Equiv) and the input bounds (InBounds); drift replay
    O.mc_skipscan(ctx, builds[:2])
    total = 0
    for i, pl in enumerate(plans):
        # (the scanner model is evaluated on every case except the wide containers with 65-blank runs, where the recursive
        # TLA+ definitions take minutes)
        recs = O.gen_od(ctx, pl, f"Gen_OnDemand_{i}", equiv=(pl["Wide"] == "FALSE" and (q or pl["MaxNodes"] <= 3)))
        rows = O.rows_c10(recs)
        fails, _ = O.replay_od(ctx, "c10", rows, builds, pads, name=f"od{i}")
        O.record(ctx, rows, fails, OWN, f"ondemand{i}")
        total += len(rows)
        ctx.traces += len(rows) * len(builds)
        ctx.log(f"replayed {len(rows)} (text, path) cases x {len(pads)} alignments x {len(builds)} builds "
                f"(GetOnDemand heap/page-end/page-start, ParseOnDemand, AtPointer); failures so far {len(ctx.fail)}")
        for r in rows[:1] + rows[len(rows) // 2:len(rows) // 2 + 1]:
            ctx.samples.append(O.describe(r))
    # beyond the node bound: trees grown by random insertions (TLC simulation), hazards for the skipper in the leaves
    for laye in ((0, 2) if q else (0, 2, 3)):
        recs = O.gen_rand_od(ctx, 3 if q else 8, 9 if q else 10, laye)
        rows = O.rows_c10(recs)
        fails, _ = O.replay_od(ctx, "c10", rows, builds, pads[:4] if q else pads[::3], name=f"odrand{laye}")
        O.record(ctx, rows, fails, OWN, f"ondemand-random{laye}")
        total += len(rows)
        ctx.traces += len(rows) * len(builds)
    ctx.log(f"replayed the simulated (text, path) cases; failures so far {len(ctx.fail)}")
    # strings whose escapes / quotes / brackets fall at every block offset, where the skipper meets them
    AS = list(range(0, 70)) if q else list(range(0, 135))
    BS = [0, 1, 30, 31, 32, 33] if q else [0, 1, 2, 14, 15, 16, 30, 31, 32, 33, 62, 63, 64, 65]
    cfg = f"CONSTANTS AS = {T.fmtset(AS)} BS = {T.fmtset(BS)}\nINIT InitOD\nNEXT NextOD\nINVARIANT EmitOD\nINVARIANT AllValid\nCHECK_DEADLOCK FALSE\n"
    recs = ctx.tlc_emit("Gen_OnDemandStr", cfg=cfg, timeout=1500, xmx="8g")
    ctx.log(f"Gen_OnDemandStr: {len(recs)} (text, path) cases with specials at block offsets, {sum(1 for r in recs if r['found'])} resolving")
    rows = O.rows_c10(recs)
    spads = [0, 1, 2, 3, 5, 8, 13, 21, 27, 31] if q else list(range(0, 34, 2))
    fails, _ = O.replay_od(ctx, "c10", rows, builds, spads, name="odstr")
    O.record(ctx, rows, fails, OWN, "ondemand-strings")
    total += len(rows)
    ctx.traces += len(rows) * len(builds)
    ctx.log(f"replayed {len(rows)} string-offset cases x {len(spads)} alignments x {len(builds)} builds; failures so far {len(ctx.fail)}")
    ctx.samples.append(O.describe(rows[len(rows) // 3]))
    ctx.extra.update(replayed_cases=total, builds=builds, alignments=pads)
    ctx.assumptions += ["R-model: JsonValue!Lookup on JsonText!Denote (first match for duplicate keys)",
                        "texts are valid JSON; behaviour on malformed input is C11's subject"]
    ctx.finish(rule="TLC enumerates (rendered syntax tree, layout, path) with paths derived from the denoted value "
                    "(present/absent/escaped-spelling keys, indices 0,1,2,size-1,size,-1, wrong-kind steps) and the "
                    "expected Lookup; replayed through GetOnDemand (3 buffer placements), ParseOnDemand and AtPointer at "
                    "every listed alignment; non-trivial = distinct (text, path)", nontrivial=total)


def replay(path):
    return O.replay_file(path)
