import json,os,shutil,sys,re
# usage: seedsave.py <seedroot e.g. /tmp/seed2> <PROP> ...   (results of seedconfirm.sh in /tmp/cs/results/<PROP>_<n>.txt)
root=sys.argv[1]
import glob
for id in sys.argv[2:]:
    base=f"{root}/{id}/out"
    have=[int(os.path.basename(p).split("-")[1]) for p in glob.glob(f"/verif/seeded/{id}-*") if os.path.basename(p).split("-")[1].isdigit()]
    off=int(os.environ.get("SEED_OFFSET", max(have) if have else 0))
    for n in sorted(os.listdir(base)):
        d=os.path.join(base,n)
        res=f"/tmp/cs/results/{id}_{n}.txt"
        if not (n.isdigit() and os.path.exists(res)): continue
        r=open(res).read()
        g=lambda k:(re.search(k+r"=(\S+)",r) or [None,None])[1]
        ok = g("demo_clean_exit")=="0" and g("demo_patched_exit") not in ("0",None) and g("unit_passed")=="173" and g("unit_unexpected_failures")=="0"
        dst=f"/verif/seeded/{id}-{int(n)+off}"
        if not ok:
            print("NOT CONFIRMED",id,n, g("demo_clean_exit"),g("demo_patched_exit"),g("unit_passed")); continue
        os.makedirs(dst,exist_ok=True)
        for f in ("patch.diff","demo.cpp","NOTES.md"):
            if os.path.exists(os.path.join(d,f)): shutil.copy(os.path.join(d,f),os.path.join(dst,f))
        notes=open(os.path.join(d,"NOTES.md")).read() if os.path.exists(os.path.join(d,"NOTES.md")) else ""
        meta=dict(property=id, seed=f"{id}-{int(n)+off}", source="independent sub-agent given only the property record and a scratch worktree",
                  needs_to_manifest=(notes.split("\n\n")[1][:600] if "\n\n" in notes else ""),
                  confirmed=dict(base_commit=os.popen("git -C /repo rev-parse --short HEAD").read().strip(),
                      ran=["g++ -std=c++17 -O2 -mavx2 -mpclmul -mbmi -mlzcnt demo.cpp on the unmodified tree -> exit "+g("demo_clean_exit"),
                           "git apply patch.diff; same demo -> exit "+g("demo_patched_exit"),
                           "cmake+ninja unit tests with the patch -> passed=%s unexpected_failures=%s"%(g("unit_passed"),g("unit_unexpected_failures"))]),
                  detected_by=None)
        json.dump(meta,open(os.path.join(dst,"meta.json"),"w"),indent=1)
        print("saved",dst)
