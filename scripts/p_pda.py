"""ParserPDA (I-model of parseImpl + SAXHandler node stack): model checking and SAX-event drift replay."""
import os
from vlib import *

SIG10 = "{91, 93, 123, 125, 44, 58, 34, 49, 97, 32}"


def cfg(sigma, maxlen, mincap, checkpush, bulk, extra):
    return f"CONSTANTS\n  Sigma = {sigma}\n  MaxLen = {maxlen}\n  MinCap = {mincap}\n  CheckPush = {'TRUE' if checkpush else 'FALSE'}\n  Bulk = {'TRUE' if bulk else 'FALSE'}\n" \
           f"INIT Init\nNEXT Next\n{extra}CHECK_DEADLOCK FALSE\n"


def mc_accept(ctx, maxlen):
    """state-by-state: acceptance = IsJsonText, result conditions, fault class, stack safety, real MinCap"""
    r = ctx.tlc("MC_ParserPDA", cfg=cfg(SIG10, maxlen, 16, True, False, "INVARIANT Inv\n"), tag=f"MC_ParserPDA_len{maxlen}", timeout=1500, xmx="12g")
    bad = "is violated" in r["out"] or r["exit"] != 0
    ctx.log(f"MC_ParserPDA (10 symbols, len <= {maxlen}, step by step): {r['distinct']} states; AcceptEquiv/ResultOk/StackSafe/ClassOk {'VIOLATED' if bad else 'hold'}")
    return r, bad


def mc_refusal(ctx, maxlen):
    """node-stack refusal (capacity floor 2 so that tiny inputs reach it): repaired code holds, pre-fix variant violates"""
    sig = "{91, 93, 49, 123, 34}"
    r = ctx.tlc("MC_ParserPDA", cfg=cfg(sig, maxlen, 2, True, False, "INVARIANT Inv\n"), tag="MC_ParserPDA_refusal", timeout=1500, xmx="12g")
    bad = "is violated" in r["out"] or r["exit"] != 0
    r2 = ctx.tlc("MC_ParserPDA", cfg=cfg(sig, maxlen, 2, False, False, "INVARIANT Inv\n"), tag="MC_ParserPDA_refusal_prefix", timeout=1500, xmx="12g")
    pre = "is violated" in r2["out"]
    ctx.extra["parserpda_prefix_variant_violates_stacksafe"] = pre
    ctx.log(f"MC_ParserPDA refusal config (MinCap=2, len <= {maxlen}): {r['distinct']} states, invariants {'VIOLATED' if bad else 'hold'}; "
            f"variant that ignores a refused push (code before commit b1d0361): {'violation found' if pre else 'no violation (model too small)'}")
    return r, bad


def drift(ctx, maxlen, builds):
    recs = ctx.tlc_emit("MC_ParserPDA", cfg=cfg(SIG10, maxlen, 16, True, True, "INVARIANT EmitRun\n"), tag="MC_ParserPDA_emit", timeout=1500, xmx="12g")

    def evs(e):
        out = []
        for x in e:
            k = x["e"]
            out.append({"StartObject": "SO", "StartArray": "SA", "Null": "Z"}.get(k) or
                       ("EO%d" % x["n"] if k == "EndObject" else "EA%d" % x["n"] if k == "EndArray" else
                        "K" + hexs(x["b"]) if k == "Key" else "S" + hexs(x["b"]) if k == "String" else
                        "N" + x["kind"] if k == "Number" else "B%d" % (1 if x["b"] else 0)))
        return ";".join(out) or "-"
    rows = [[str(i), hexs(r["t"]), str(r["err"]), str(r["pos"]), evs(r["events"])] for i, r in enumerate(recs)]
    p = os.path.join(ctx.work, "pda.tsv")
    with open(p, "w") as f:
        for row in rows:
            f.write("\t".join(row) + "\n")
    bins = ctx.build("rt_sax.cpp", builds)
    d = {}
    for b in builds:
        fails, other, n = run_cases(ctx, bins[b], [], p, b, timeout=900)
        ctx.evals += n
        for line in other:
            if line.startswith("D\t"):
                what = line.split("\t")[2].split(" ")[0]
                d[what] = d.get(what, 0) + 1
    ctx.traces += len(rows) * len(builds)
    ctx.extra["parserpda_drift"] = d
    ctx.log(f"ParserPDA vs code at SAX-event level: {len(rows)} texts x {len(builds)} builds; drift (model prediction vs code, not a verdict): {d or 'none'}")
    return d
