"""C06 - Serialize output is valid JSON that parses back to an equal document."""
import os, json
from vlib import *
import p_text as T
import p_num as N
import p_wb as W
import p_dom as D


def tok_to_value(toks, i=0):
    k = toks[i]
    if k == "n": return dict(k="null"), i + 1
    if k == "t": return dict(k="true"), i + 1
    if k == "f": return dict(k="false"), i + 1
    if k[0] == "u": return dict(k="uint", d=[int(c) for c in k[2:]]), i + 1
    if k[0] == "i": return dict(k="sint", d=[int(c) for c in k[2:].lstrip("-")]), i + 1
    if k[0] == "d":
        b = int(k[2:], 16)
        return dict(k="real", w=[(b >> 48) & 0xFFFF, (b >> 32) & 0xFFFF, (b >> 16) & 0xFFFF, b & 0xFFFF]), i + 1
    if k[0] == "s": return dict(k="str", b=list(bytes.fromhex(k[2:])) if k[2:] != "-" else []), i + 1
    if k == "[":
        e = []
        i += 1
        while toks[i] != "]":
            v, i = tok_to_value(toks, i)
            e.append(v)
        return dict(k="arr", e=e), i + 1
    if k == "{":
        m = []
        i += 1
        while toks[i] != "}":
            key = list(bytes.fromhex(toks[i][2:])) if toks[i][2:] != "-" else []
            v, i = tok_to_value(toks, i + 1)
            m.append([key, v])
        return dict(k="obj", m=m), i + 1
    raise ValueError(k)


def run(tier):
    ctx = Ctx("C06", tier)
    q = ctx.quick
    builds = ["asan-avx2", "prod-avx2", "asan-sse"] if q else ["asan-avx2", "prod-avx2", "asan-sse", "prod-sse", "asan-dyn", "prod-dyn"]
    # design level: the growth contracts of the serializer against Stack::Grow / Reserve for every starting capacity
    bad, r = W.run(ctx, builds[:2])
    if bad:
        ctx.add_fail(dict(property="C06", kind="model", sig="model:WriteBuf", shape=dict(kind="model"), build="tlc",
                          detail="WriteBuf!NoOverflow violated: " + r["out"][-1200:], case={}, replay=dict(harness="MC_WriteBuf")))
    # documents: valid texts from the TLC corpora (all value kinds, empty containers last, scalar roots, duplicate keys,
    # strings with every byte class at block offsets, wide containers, number boundaries)
    rows = []
    F = T.fmtset
    recs = []
    recs += T.gen_simple(ctx, "Gen_Values", dict(MaxNodes=2, Pool=2, Layouts="{0}", Wide="FALSE"), tag="Gen_Values_p2", invariants=("Emit", "SpecRoundTrip"))
    recs += T.gen_simple(ctx, "Gen_Values", dict(MaxNodes=3 if q else 4, Pool=1, Layouts="{0}", Wide="FALSE"), tag="Gen_Values_p1", invariants=("Emit", "SpecRoundTrip"))
    recs += T.gen_simple(ctx, "Gen_Values", dict(MaxNodes=4 if q else 5, Pool=0, Layouts="{0}", Wide="FALSE"), tag="Gen_Values_p0", invariants=("Emit", "SpecRoundTrip"))
    recs += T.gen_simple(ctx, "Gen_Values", dict(MaxNodes=1, Pool=0, Layouts="{0}", Wide="TRUE"), tag="Gen_Values_wide", invariants=("Emit", "SpecRoundTrip"))
    srecs = T.gen_simple(ctx, "Gen_Strings", dict(AS=F([0, 1, 15, 16, 31, 32, 33, 63, 64] if q else list(range(0, 67))), BS="{0,1}", CS="{0,1,17}", Pairs="FALSE"),
                         tag="Gen_Strings_ser", invariants=("Emit",))
    recs += [r for r in srecs if r["ok"]]
    qcfg = f'CONSTANTS Mode = "all" AS = {F([0, 31, 33] if q else [0, 1, 15, 16, 31, 32, 33])} BS = {{0}} CS = {{0}}\nINIT Init\nNEXT Next\nINVARIANT Emit\nCHECK_DEADLOCK FALSE\n'
    qrecs = ctx.tlc_emit("Gen_Quote", cfg=qcfg, tag="Gen_Quote_for_ser", timeout=900)
    # every byte value inside a string value and a key: the JSON text is the canonical quoting from the spec
    for r in qrecs:
        lit = r["q"]
        recs.append(dict(t=[91] + lit + [44, 123] + lit + [58, 49, 125, 93], ok=True))
    tight = []
    for k in (0, 1, 2, 5, 11, 14, 15, 16, 17, 18, 20, 24, 30, 36) if q else range(0, 48):
        for m in ((1, 2, 3, 4, 16, 33) if q else (1, 2, 3, 4, 5, 15, 16, 17, 31, 32, 33)):
            for tail in ((b'', b',7') if q else (b'', b',7', b',1.5', b',true', b',{"a":"\\u0001"}')):
                t = b'["' + b'\\u0001' * k + b'","' + b'a' * m + b'"' + tail + b']'
                tight.append(dict(t=list(t), ok=True, tight=True))
    # content before a long string that expands 6x: the growth request is below twice the capacity while write position +
    # request is above it
    for p in ((0, 3, 5, 6) if q else range(0, 9)):
        for k in ((40, 60, 69, 70, 71, 85) if q else list(range(20, 100, 4)) + [69, 70, 71]):
            t = b'[' + b'18446744073709551615,' * p + b'"' + b'\\u0001' * k + b'",7]'
            tight.append(dict(t=list(t), ok=True, tight=True))
    # the longest renderings of every numeric kind (fixed notation runs down to 1e-6: sign + "0." + five zeros + 17
    # digits = 25 bytes; 24 for the largest exponent form; 20 for the 64-bit integer limits) behind fillers of every length,
    # so that with the sweep over every starting capacity each of them meets every amount of free space
    longnums = [b'-0.0000012345678901234567', b'-0.0000098765432109876543', b'-1.7976931348623157e+308', b'-2.2250738585072014e-308',
                b'18446744073709551615', b'-9223372036854775808', b'123456789012345680000', b'-1.2345678901234567e-7']
    for num in longnums:
        # (fillers long enough that the write position passes the serializer's initial estimate of 18 bytes per node + 64)
        for m in (list(range(0, 9)) + [15, 16, 33] + list(range(72, 92)) if q else range(0, 130)):
            for tail in (b'', b',1'):
                tight.append(dict(t=list(b'["' + b'a' * m + b'",' + num + tail + b']'), ok=True, tight=True))
    # the same behind k maximal integers (21 bytes per element against the serializer's estimate of 18 per node: from k = 19
    # on the running output has overtaken the estimate, so the swept starting capacities put every amount of free space in
    # front of the last number without an earlier growth)
    for num in longnums[:3] + longnums[4:6]:
        for k in (range(17, 33) if q else range(0, 48)):
            tight.append(dict(t=list(b'[' + b'18446744073709551615,' * k + num + b']'), ok=True, tight=True))
    recs += tight
    seen = set()
    for r in recs:
        if r["ok"]:
            k = bytes(r["t"])
            if k not in seen:
                seen.add(k)
                rows.append([str(len(rows)), hexs(r["t"]), "1" if r.get("tight") else "0"])
    ctx.log(f"{len(rows)} distinct valid texts to build documents from")
    bins = ctx.build("rt_ser.cpp", builds)
    nsh = 4
    per = (len(rows) + nsh - 1) // nsh
    jobs = []
    for s in range(nsh):
        p = os.path.join(ctx.work, f"ser_{s}.tsv")
        T.write_rows(p, rows[s * per:(s + 1) * per])
        for b in builds:
            jobs.append((b, s, p, s * per))

    def one(job):
        b, s, p, base = job
        ev = os.path.join(ctx.work, f"ser_ev_{b}_{s}.tsv")
        f, other, n = run_cases(ctx, bins[b], [ev], p, b, timeout=1500)
        return b, base, f, n, ev

    events, seen_ev = [], {}
    for b, base, f, n, ev in parallel(one, jobs):
        ctx.evals += n
        for idx, kind, detail in f:
            bk = "crash" if kind.startswith("crash") else kind
            row = rows[min(base + idx, len(rows) - 1)]
            ctx.add_fail(dict(property="C06", kind=bk, sig=(kind if bk == "crash" else bk), shape=dict(kind=bk), build=b, detail=detail,
                              case=dict(text=repr(bytes.fromhex(row[1]))[2:-1][:300]), replay=dict(harness="rt_ser.cpp", row=row)))
        if os.path.exists(ev):
            for l in open(ev):
                l = l.rstrip("\n")
                if l and l not in seen_ev:
                    seen_ev[l] = b
    for l, b in seen_ev.items():
        try:
            tok, outhex = l.split("\t")
            v, _ = tok_to_value(tok.split(" "))
            bytes.fromhex(outhex if outhex != "-" else "")
        except Exception:
            continue                        # torn last line of a crashed recorder
        events.append(dict(k="ser", out=list(bytes.fromhex(outhex)) if outhex != "-" else [], v=v))
    ctx.log(f"{len(events)} distinct (document, output) events for TLC (JsonText recogniser + value comparison)")
    rej = N.validate_events(ctx, events, name="c06", per_shard=1500, workers_per=1)
    for e in rej:
        ctx.add_fail(dict(property="C06", kind="relation", sig="relation:ser", shape=dict(kind="relation"), build="?",
                          detail="output %s is not a JSON text denoting the serialised value" % repr(bytes(e["out"]))[:200], case=e,
                          replay=dict(harness="Trace_Num", event=e)))
    ctx.traces += len(rows) * len(builds)
    ctx.samples += events[:2]
    ctx.extra.update(documents=len(rows), builds=builds)
    ctx.assumptions += ["the independent RFC 8259 recogniser of the property is the TLA+ module JsonText, evaluated by TLC on the recorded output bytes",
                        "unchecked writes beyond the buffer are observed by ASan (heap write buffers of every starting capacity)"]
    # life cycle (spec/Sonic.tla): Dump of trees that were parsed, mutated through the API, copied and parsed again
    D.lifecycle(ctx, "C06", builds[:2], 2 if q else 12, 25 if q else 40, 3)
    ctx.finish(rule="documents parsed from TLC-generated valid texts (all kinds, duplicate keys, every byte value in strings and keys, specials at "
                    "block offsets, wide containers) and re-assembled through the mutation API; serialised into write buffers of ~30 starting "
                    "capacities around the output length and the internal estimate; output validated by TLC (JsonText accepts it and it denotes "
                    "the walked value, kinds included); library round trip and re-serialisation identical; non-finite doubles planted at every "
                    "number position; non-trivial = distinct document", nontrivial=len(rows))


def replay(path):
    rec = json.load(open(path))
    ctx = Ctx("C06-replay", "quick")
    rp = rec["replay"]
    if rp["harness"] == "rt_dom.cpp":
        ctx.cleanup()
        return D.replay_file(path)
    if rp["harness"] == "Trace_Num":
        rej = N.validate_events(ctx, [rp["event"]], name="replay")
        print("TLC verdict:", "REJECTED" if rej else "accepted")
        ctx.cleanup()
        return 1 if rej else 0
    p = os.path.join(ctx.work, "r.tsv")
    T.write_rows(p, [rp["row"]])
    bins = ctx.build("rt_ser.cpp", ["asan-avx2", "prod-avx2", "asan-sse"])
    bad = 0
    for b, path_ in bins.items():
        f, other, n = run_cases(ctx, path_, [os.path.join(ctx.work, "ev_" + b)], p, b)
        for x in f:
            print(b, x)
            bad += 1
    ctx.cleanup()
    return 1 if bad else 0
