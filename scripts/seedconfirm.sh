#!/bin/bash
# confirm one seeded change: $1 = dir with patch.diff + demo.cpp ; $2 = label
D=$1; L=$2
W=/tmp/cs/wt_$L
R=/tmp/cs/results/$L.txt
exec > $R 2>&1
git -C /repo worktree remove --force $W 2>/dev/null
git -C /repo worktree add --detach $W HEAD >/dev/null 2>&1 || { echo "worktree failed"; exit 1; }
cd $W
FL="-std=c++17 -O2 -mavx2 -mpclmul -mbmi -mlzcnt -pthread"
EXTRA=""
grep -q "lazy_update" $D/demo.cpp && true
if ! git apply --check $D/patch.diff 2>/dev/null; then echo "patch_applies=no"; else echo "patch_applies=yes"; fi
git apply $D/patch.diff || { echo "APPLY FAILED"; git -C /repo worktree remove --force $W; exit 1; }
try_cfg() { # name compiler flags...
  local name=$1; shift; local cxx=$1; shift
  $cxx "$@" -I$W/include $D/demo.cpp -o /tmp/cs/demo_pat_$L >/dev/null 2>&1 || { echo "cfg $name: compile failed"; return 1; }
  ( cd $W && git checkout -q -- include ) ; $cxx "$@" -I$W/include $D/demo.cpp -o /tmp/cs/demo_clean_$L >/dev/null 2>&1
  ( cd $W && git apply $D/patch.diff )
  local okc=0 okp=0
  for k in 1 2 3; do timeout 300 /tmp/cs/demo_clean_$L >/dev/null 2>&1; c=$?; [ $c -ne 0 ] && okc=$c; done
  for k in 1 2 3; do timeout 300 /tmp/cs/demo_pat_$L >/dev/null 2>&1; p=$?; [ $p -ne 0 ] && okp=$p; done
  echo "cfg $name: clean_exit=$okc patched_exit=$okp"
  if [ $okc -eq 0 ] && [ $okp -ne 0 ]; then echo "demo_clean_exit=0"; echo "demo_patched_exit=$okp"; echo "demo_cfg=$name"; return 0; fi
  return 1
}
AV="-mavx2 -mpclmul -mbmi -mlzcnt"
try_cfg prod-avx2 g++ -std=c++17 -O2 $AV -pthread || \
try_cfg asan-avx2 g++ -std=c++17 -O1 -g -fsanitize=address $AV -pthread || \
try_cfg asan-simple g++ -std=c++17 -O1 -g -fsanitize=address -DUSE_SIMPLE_ALLOCATOR $AV -pthread || \
try_cfg prod-ndebug g++ -std=c++17 -O2 -DNDEBUG $AV -pthread || \
try_cfg prod-sse g++ -std=c++17 -O2 -msse4.2 -mpclmul -pthread || \
try_cfg prod-dyn g++ -std=c++17 -O2 -DSONIC_DYNAMIC_DISPATCH=1 -msse4.2 -mpclmul -pthread || \
try_cfg tsan clang++ -std=c++17 -O1 -g -fsanitize=thread $AV -pthread || \
try_cfg tsan-locked clang++ -std=c++17 -O1 -g -fsanitize=thread -DSONIC_LOCKED_ALLOCATOR $AV -pthread || \
try_cfg prod-locked g++ -std=c++17 -O2 -DSONIC_LOCKED_ALLOCATOR $AV -pthread || echo "NO CONFIG SHOWS THE DIFFERENCE"
cmake -G Ninja -S $W -B $W/_build -DFETCHCONTENT_SOURCE_DIR_GOOGLETEST=/usr/src/googletest -DCMAKE_BUILD_TYPE=RelWithDebInfo >/dev/null 2>&1
cmake --build $W/_build -j8 2>&1 | tail -2
(cd $W/_build/tests && ./unittest 2>&1 | tail -12 | grep -E "PASSED|FAILED TESTS|tests ran" )
P=$(cd $W/_build/tests && ./unittest 2>&1 | grep -c '^\[       OK \]')
F=$(cd $W/_build/tests && ./unittest 2>&1 | grep '^\[  FAILED  \]' | grep -v 'tests, listed' | grep -vc 'ParseFile\|ParseOnDemandFile')
echo "unit_passed=$P unit_unexpected_failures=$F"
cd /; git -C /repo worktree remove --force $W
rm -f /tmp/cs/demo_clean_$L /tmp/cs/demo_pat_$L /tmp/cs/demo_clean_$L.out /tmp/cs/demo_pat_$L.out
