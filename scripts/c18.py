"""C18 - see scripts/p_dom.py (spec/Dom.tla)."""
import p_dom as D

RULES = {
 "C12": "TLC model-checks spec/Dom.tla (I-model refines plain containers; map/capacity/lookup invariants) exhaustively for small pools and simulates long behaviours of every mutation operation; each behaviour is replayed on real DNode<MemoryPoolAllocator> and DNode<tracking freeing allocator> and after every step the accessor walk, lookups and Dump are compared with the R-state; non-trivial = distinct behaviour",
 "C13": "the Dom behaviours are replayed with a tracking freeing allocator under ASan+LSan: no double/foreign free, nothing live when root and aux are destroyed, deep copies independent; the recorded alloc/free event traces are validated by TLC against spec/Trace_Ownership.tla; the ledger invariant LedgerOk is model-checked on the I-model; non-trivial = distinct behaviour",
 "C18": "Dom!EqOk (I-model of operator== equals JSON equality REq, both directions, reflexive, copy-equal) is model-checked; on replay, after every step root==aux, aux==root, != are compared with REq, a deep copy in another allocator type and the parse of Dump() must be == to the original; non-trivial = distinct behaviour",
}


def run(tier):
    D.run_prop("C18", tier, RULES["C18"])


def replay(path):
    return D.replay_file(path)
