"""WriteBuf I-model (Stack::Reserve/Grow + SerializeImpl growth contracts): model checking and drift replay."""
import os
from vlib import *

BASE = "CONSTANTS\n  VecLen = %d\n  StrSlack = %d\n  NumReserve = 33\n  Docs <- MCDocs\n  Caps <- MCCaps\n"


def run(ctx, builds):
    bad = False
    for vec in (32, 16):
        r = ctx.tlc("MC_WriteBuf", cfg=BASE % (vec, 35) + "INIT GInit\nNEXT GNext\nINVARIANT NoOverflow\nINVARIANT SizeSane\nCHECK_DEADLOCK FALSE\n",
                    tag=f"MC_WriteBuf_v{vec}", timeout=900)
        v = "is violated" in r["out"] or r["exit"] != 0
        bad = bad or v
        ctx.log(f"MC_WriteBuf (VecLen={vec}, code's growth contracts): {r['distinct']} states over (document stream, starting capacity); NoOverflow {'VIOLATED' if v else 'holds'}")
    r2 = ctx.tlc("MC_WriteBuf", cfg=BASE % (32, 3) + "INIT GInit\nNEXT GNext\nINVARIANT NoOverflow\nCHECK_DEADLOCK FALSE\n", tag="MC_WriteBuf_small", timeout=900)
    ctx.extra["writebuf_model_rejects_smaller_string_reservation"] = "is violated" in r2["out"]
    recs = ctx.tlc_emit("MC_WriteBuf", cfg=BASE % (32, 35) + "INIT GInit\nNEXT GNext\nINVARIANT EmitFinal\nCHECK_DEADLOCK FALSE\n", tag="Gen_WriteBuf", timeout=900)

    def tok(t):
        k = t["t"]
        return {"lit": "t" if t.get("out") == 5 else "f", "close": "c", "empty": "e"}.get(k) or \
            ("s%d:%d" % (t["n"], (t["out"] - t["n"] - 2) // 5) if k == "str" else "n%d" % t["out"] if k == "num" else "o%d" % t["size"])
    rows = []
    for i, r in enumerate(recs):
        ts = [tok(t) for t in r["toks"]]
        if ts[-1] == "c" and not ts[0].startswith("o"):
            ts = ts[:-1]
        rows.append([str(i), ";".join(ts), str(r["cap0"]), str(r["size"]), str(r["cap"])])
    p = os.path.join(ctx.work, "wb.tsv")
    open(p, "w").write("\n".join("\t".join(r) for r in rows) + "\n")
    bins = ctx.build("rt_wb.cpp", builds)
    drift = {}
    for b in builds:
        f, other, n = run_cases(ctx, bins[b], [], p, b, timeout=900)
        ctx.evals += n
        for line in other:
            if line.startswith("DRIFT"):
                a = line.split("\t")
                drift["size"] = drift.get("size", 0) + int(a[2])
                drift["cap"] = drift.get("cap", 0) + int(a[4])
        for idx, kind, detail in f:
            ctx.add_fail(dict(property=ctx.prop, kind="crash" if kind.startswith("crash") else kind, sig=kind, shape=dict(kind=kind), build=b, detail=detail,
                              case=dict(stream=rows[min(idx, len(rows) - 1)][1], cap0=rows[min(idx, len(rows) - 1)][2]), replay=dict(harness="rt_wb.cpp", row=rows[min(idx, len(rows) - 1)])))
    ctx.traces += len(rows) * len(builds)
    ctx.extra["writebuf_drift"] = drift
    ctx.log(f"WriteBuf model vs real WriteBuffer: {len(rows)} (stream, capacity) cases x {len(builds)} builds; final Size()/Capacity() drift: {drift}")
    return bad, r
