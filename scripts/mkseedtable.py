#!/usr/bin/env python3
"""Rewrites section D of DESIGN.md (seeded changes and which checks catch them) from seeded/*/meta.json."""
import json, glob, os, re
ROOT = os.path.dirname(os.path.dirname(os.path.abspath(__file__)))


def key(d):
    b = os.path.basename(d)
    p, n = b.split("-")
    return (p, int(n))


def main():
    rows, ncaught, total = [], 0, 0
    for d in sorted(glob.glob(os.path.join(ROOT, "seeded", "C*-*")), key=key):
        m = json.load(open(os.path.join(d, "meta.json")))
        seed = os.path.basename(d)
        notes = open(os.path.join(d, "NOTES.md")).read() if os.path.exists(os.path.join(d, "NOTES.md")) else ""
        desc = ""
        for line in notes.splitlines():
            l = line.strip("#* ").strip()
            if len(l) > 25 and not l.lower().startswith(("notes", "change", "seed")):
                desc = l
                break
        db = m.get("detected_by") or {}
        caught = [f"{p}{'' if v['tier'] == 'quick' else ' (thorough)'}" for p, v in db.items() if v["verdict"] == "CAUGHT"]
        first = next((v["first"] for p, v in db.items() if v["verdict"] == "CAUGHT"), "")
        total += 1
        ncaught += bool(caught)
        rnd = 2 if key(d)[1] >= (6 if seed.startswith("C09") else 4) else 1
        rows.append(f"| {seed} | {rnd} | {desc[:130].replace('|', '/')} | {', '.join(caught) or 'NOT CAUGHT'} | {first[:80].replace('|', '/')} |")
    head = open(os.path.join(ROOT, "seeded", "SECTION_D_HEAD.md")).read().replace("@TOTAL@", str(total)).replace("@CAUGHT@", str(ncaught))
    sec = head + "\n| seed | round | change (from the sub-agent's notes) | caught by | first violation line |\n|---|---|---|---|---|\n" + "\n".join(rows) + "\n\n"
    p = os.path.join(ROOT, "DESIGN.md")
    s = open(p).read()
    a = s.index("## D. Seeded changes")
    b = s.index("## E. Limits as built") if "## E. Limits as built" in s else s.index("## 0. Reader's summary")
    open(p, "w").write(s[:a] + sec + s[b:])
    print(f"{ncaught}/{total} caught")


if __name__ == "__main__":
    main()
