"""C16 - The pool allocator hands out aligned, disjoint, stable blocks (spec/Pool.tla)."""
import os, json
from vlib import *

OWN = {"null", "realloc-prefix", "inplace", "alignment", "containment", "contents", "overlap", "accounting",
       "refcount", "leak", "crash"}

CONFIGS = [
    # name, Adaptive, ChunkCap, MaxChunkCap, UserBuf, misalign, extra compile defines
    ("simple64", False, 64, 256, 0, 0, []),
    ("adaptive64-256", True, 64, 256, 0, 0, ["-DSONIC_ALLOCATOR_MAX_CHUNK_CAPACITY=256"]),
    ("simple64-user128", False, 64, 256, 128, 0, []),
    ("simple64-user128-misaligned", False, 64, 256, 128, 3, []),
    # capacity not a multiple of the 8-byte granule, buffer misaligned by 3 and by 7
    ("simple64-user124-misaligned3", False, 64, 256, 124, 3, []),
    ("simple64-user62-misaligned7", False, 64, 256, 62, 7, []),
    ("simple256", False, 256, 1024, 0, 0, []),
]
SIZES = "{0, 1, 8, 9, 24, 56, 64, 65, 72, 128, 300, 520}"
SIZES_BIG = "{0, 1, 9, 24, 200, 248, 256, 257, 600}"


def cfg_consts(c, sizes, maxblocks, maxsteps, handles=3):
    name, ad, cc, mx, ub, mis, _ = c
    return f"""CONSTANTS
  ChunkCap = {cc}
  Adaptive = {"TRUE" if ad else "FALSE"}
  MaxChunkCap = {mx}
  UserBuf = {ub}
  Sizes = {sizes}
  MaxBlocks = {maxblocks}
  MaxHandles = {handles}
  MaxSteps = {maxsteps}
"""


def rows_of(recs):
    rows = []
    for bid, r in enumerate(recs):
        for i, st in enumerate(r["steps"]):
            a = st["a"]
            rows.append([str(bid), str(i), a["op"], str(a.get("tag", 0)), str(a.get("n", 0)),
                         "1" if a.get("null") else "0", "1" if a.get("inplace") else "0", "1" if a.get("same") else "0",
                         str(st["size"]), str(st["cap"]), str(st["rc"])])
    return rows


def run(tier):
    ctx = Ctx("C16", tier)
    q = ctx.quick
    builds = ["asan-avx2", "prod-avx2"]
    total = 0
    drift = 0
    cfgs = CONFIGS[:6] if q else CONFIGS       # the 256-byte-chunk configuration is thorough-only (slow model)
    results = parallel(lambda c: one_config(ctx, c, q, builds), cfgs, workers=5)
    for name, nrecs, d, sample in results:
        total += nrecs
        drift += d
        if sample:
            ctx.samples.append(sample)
    finish(ctx, builds, drift, total)


def one_config(ctx, c, q, builds):
    if True:
        drift = 0
        total = 0
        name = c[0]
        sizes = SIZES_BIG if name == "simple256" else SIZES
        # (1) design: exhaustive BFS with small request set
        mcs = "{0, 8, 9, 24, 40, 72}" if name != "simple256" else "{0, 8, 240, 256, 264}"
        r = ctx.tlc("MC_Pool", cfg=cfg_consts(c, mcs, 3, 5 if (q or name == "simple256") else 6, handles=2) +
                    "SPECIFICATION Spec\nINVARIANT Inv\nCONSTRAINT Constraint\nVIEW View\nCHECK_DEADLOCK FALSE\n",
                    tag=f"MC_Pool_{name}", timeout=3000, xmx="6g", workers=4)
        if "is violated" in r["out"] or r["exit"] not in (0,):
            ctx.add_fail(dict(property="C16", kind="model", sig="model-invariant:" + name, shape=dict(kind="model"), build="tlc",
                              detail="an invariant of spec/Pool.tla is violated in MC_Pool: " + r["out"][-1200:], case=dict(config=name),
                              replay=dict(harness="MC_Pool", config=name)))
        ctx.log(f"MC_Pool[{name}]: {r['distinct']} distinct states, {r['generated']} generated, exit {r['exit']}")
        # (2) behaviours by simulation, replayed on the real allocator
        gcfg = cfg_consts(c, sizes, 100000, 100000) + f"  Depth = {20 if q else 40}\nINIT GInit\nNEXT GNext\nINVARIANT EmitBeh\nCHECK_DEADLOCK FALSE\n"
        recs = ctx.tlc_emit("Gen_Pool", cfg=gcfg, tag=f"Gen_Pool_{name}", simulate=8 if q else 60, depth=(20 if q else 40) + 1,
                            workers=3, timeout=3000, xmx="4g")
        rows = rows_of(recs)
        p = os.path.join(ctx.work, f"pool_{name}.tsv")
        with open(p, "w") as f:
            for row in rows:
                f.write("\t".join(row) + "\n")
        bins = ctx.build("rt_pool.cpp", builds, extra=c[6], name="rt_pool_" + name)
        for b in builds:
            fails, other, n = run_cases(ctx, bins[b], ["adaptive" if c[1] else "simple", str(c[2]), str(c[4]), str(c[5])], p, b, timeout=3000)
            ctx.evals += n
            for line in other:
                if line.startswith("DRIFT"):
                    drift += int(line.split("\t")[2])
            for idx, kind, detail in fails:
                base = "crash" if kind.startswith("crash") else kind
                if base not in OWN:
                    continue
                bid = rows[min(idx, len(rows) - 1)][0]
                j = min(idx, len(rows) - 1)
                k = j
                while k > 0 and rows[k - 1][0] == bid:
                    k -= 1
                ctx.add_fail(dict(property="C16", kind=base, sig=f"{kind}:{name}", shape=dict(kind=base, config=name), build=b, detail=detail,
                                  case=dict(config=name, behaviour=[dict(op=x[2], tag=x[3], n=x[4]) for x in rows[k:j + 1]]),
                                  replay=dict(harness="rt_pool.cpp", config=list(c[:6]), extra=c[6], rows=rows[k:j + 1])))
        ctx.traces += len(recs) * len(builds)
        ctx.log(f"config {name}: {len(recs)} behaviours ({len(rows)} steps) replayed in {builds}; failures so far {len(ctx.fail)}")
        return name, len(recs), drift, (dict(config=name, steps=[s["a"] for s in recs[0]["steps"][:8]]) if recs else None)


def finish(ctx, builds, drift, total):
    ctx.extra.update(configs=[c[0] for c in CONFIGS], builds=builds, drift_size_capacity_predictions=drift)
    ctx.assumptions += ["R-level checks (alignment, containment in a base-allocator chunk or the user buffer, disjointness, contents, realloc "
                        "prefix, null on zero size, Size() <= Capacity() and >= live bytes) are computed by the replayer from what the real "
                        "allocator returned; 'grows in place' is demanded when the specification's chunk state says the block is the most "
                        "recent allocation and room remains; predicted Size()/Capacity() are DRIFT-only",
                        "chunk sizes are scaled (64..1024 bytes, adaptive max 256) so that chunk edges are reached in short behaviours; the "
                        "constants of the model equal the constants the real allocator is built with"]
    ctx.finish(rule="TLC model-checks spec/Pool.tla (alignment, one-chunk containment, disjointness, undisturbed contents, accounting, pool "
                    "lifetime) exhaustively to a depth bound for 5 configurations (simple/adaptive policy, user buffer aligned/misaligned, "
                    "large chunks) and simulates long behaviours that are replayed on the real MemoryPoolAllocator; non-trivial = distinct behaviour",
               nontrivial=total)


def replay(path):
    rec = json.load(open(path))
    ctx = Ctx("C16-replay", "quick")
    c = rec["replay"]["config"]
    p = os.path.join(ctx.work, "replay.tsv")
    with open(p, "w") as f:
        for row in rec["replay"]["rows"]:
            f.write("\t".join(row) + "\n")
    bins = ctx.build("rt_pool.cpp", ["asan-avx2", "prod-avx2"], extra=rec["replay"].get("extra", []))
    bad = 0
    for b in bins:
        fails, other, n = run_cases(ctx, bins[b], ["adaptive" if c[1] else "simple", str(c[2]), str(c[4]), str(c[5])], p, b)
        for f in fails:
            print(b, f)
            bad += 1
    ctx.cleanup()
    return 1 if bad else 0
