"""C03 - A successful Parse yields exactly the value the text denotes."""
from vlib import *
import p_text as T
import p_dom as D
import p_num as N


def run(tier):
    ctx = Ctx("C03", tier)
    q = ctx.quick
    builds = ["prod-avx2", "asan-avx2", "prod-sse"] if q else \
        ["prod-avx2", "asan-avx2", "prod-sse", "asan-sse", "prod-dyn", "asan-dyn"]
    pads = [0, 1, 31, 32, 33, 63, 64, 65] if q else [0, 1, 2, 7, 8, 15, 16, 31, 32, 33, 63, 64]
    corpora = T.corpora(ctx, "C03")
    total = 0
    allpairs = set()
    for name, rows in corpora:
        rows = [r for r in rows if r[2] == "1"]       # C03 speaks about successful parses
        fails, pairs, _ = T.replay_parse(ctx, rows, builds, pads, name=name, want_pairs=True)
        T.record_fails(ctx, rows, fails, T.OWN["C03"], name)
        allpairs |= pairs
        total += len(rows)
        ctx.traces += len(rows) * len(builds)
        ctx.log(f"replayed corpus {name}: {len(rows)} valid texts x {len(pads)} alignments x {len(builds)} builds; "
                f"failures so far {len(ctx.fail)}; doubles met {len(allpairs)}")
        for r in rows[:1] + rows[-1:]:
            ctx.samples.append(dict(corpus=name, **T.describe(r)))
    # every (decimal, stored double) pair met in the corpora is judged by TLC (Rounding!RoundsTo)
    events = [N.pair_to_event(p) for p in sorted(allpairs)]
    rej = N.validate_events(ctx, events, name="c03")
    for ev in rej:
        ctx.add_fail(dict(property="C03", kind="double-value", sig="double-value", shape=dict(kind="double-value"),
                          detail=f"decimal {'-' if ev['neg'] else ''}{''.join(map(str, ev['d']))}e{ev['e']} stored as words {ev['w']}: not the correctly rounded double",
                          case=ev, build="(first build)", replay=dict(harness="Trace_Num", event=ev)))
    # life cycle (spec/Sonic.tla): Parse into a document that held other trees before, after mutations and earlier parses
    D.lifecycle(ctx, "C03", builds[:2], 2 if q else 12, 25 if q else 40, 3)
    ctx.samples += events[:3]
    ctx.extra.update(replayed_cases=total, builds=builds, alignments=pads, doubles_validated=len(events))
    ctx.assumptions += ["R-model JsonText!Denote is the only value oracle; doubles are judged by Rounding!RoundsTo in TLC",
                        "the accessor walk (harness/walk.h) uses only the public accessor API and cross-checks the accessors against each other"]
    ctx.finish(rule="TLC enumerates valid JSON texts (byte strings, token sequences, all syntax trees up to a node bound over "
                    "pools of scalar spellings x whitespace layouts, wide containers) with Denote(text); the real document is "
                    "walked through the accessor API and must be structurally identical; non-trivial = distinct valid text",
               nontrivial=total)


def replay(path):
    import json
    if json.load(open(path)).get("replay", {}).get("harness") == "rt_dom.cpp":
        return D.replay_file(path)
    return T.replay_file(path)
