"""C04 - Numbers parse to the exact integer or the correctly rounded double."""
from vlib import *
import p_text as T
import p_numgen as G
import p_numrun as R


def describe(ev):
    t = bytes(ev["t"]).decode("latin1")
    got = ev["res"] + (" " + "".join(map(str, ev["dg"])) if ev["dg"] else "") + \
        (" bits=%04x%04x%04x%04x" % tuple(ev["w"]) if ev["res"] == "double" else "") + (f" code={ev['code']}" if ev["res"] == "err" else "")
    return f"number '{t[:80]}' was parsed to {got}: not the integer kind / correctly rounded double / infinity error the text denotes"


def run(tier):
    ctx = Ctx("C04", tier)
    q = ctx.quick
    builds = ["prod-avx2", "asan-sse"] if q else ["prod-avx2", "asan-avx2", "prod-sse", "asan-sse", "prod-dyn"]
    # structural classes from TLC
    recs = T.gen_simple(ctx, "Gen_Numbers", dict(Mode='"float"'), tag="Gen_Numbers_float", invariants=("Emit",)) if False else \
        ctx.tlc_emit("Gen_Numbers", cfg='CONSTANTS Mode = "float"\nINIT Init\nNEXT Next\nINVARIANT Emit\nCHECK_DEADLOCK FALSE\n', tag="Gen_Numbers_float", timeout=900)
    structural = [bytes(r["t"]).decode() for r in recs]
    ctx.rng.shuffle(structural)
    structural = structural[:2500 if q else 33060]
    constructed = G.c04_inputs(ctx.rng, q)
    inputs = structural + constructed
    ctx.log(f"inputs: {len(structural)} structural spellings from TLC (Gen_Numbers) + {len(constructed)} constructed (halfway / table rows / boundaries / random)")
    n = R.run_numeric(ctx, "parse", inputs, builds, "c04", describe)
    ctx.extra.update(inputs=len(inputs), builds=builds)
    ctx.assumptions += ["the verdict for every recorded (spelling, result) pair is TLC's: NumberLex kind rule, Rounding!RoundsTo / Overflows on BigNat",
                        "a sample of an unbounded space: the claim covers the explored spellings only (DESIGN section 6)"]
    ctx.finish(rule="number spellings = TLC structural classes (sign x integer digits x fraction digits x exponent form x pattern) + exact "
                    "midpoints of adjacent doubles and their last-digit neighbours in every parser layout + one spelling per power-of-ten "
                    "table row + integer boundaries + random; each parsed by the library (root, element, member, after blanks) and the "
                    "recorded result validated by TLC; non-trivial = distinct (spelling, result) event", nontrivial=n)


def replay(path):
    return R.replay_file(path, "parse")
