"""On-demand corpora and replay (C10, C11)."""
import os, json
from vlib import *
import p_text as T


def path_str(path):
    if not path:
        return "-"
    out = []
    for s in path:
        out.append("k:" + hexs(s["b"]) if s["k"] == "key" else "i:%d" % s["n"])
    return "/".join(out)


def gen_od(ctx, consts, tag):
    cfg = "CONSTANTS\n" + "\n".join(f"  {k} = {v}" for k, v in consts.items()) + \
          "\nINIT InitOD\nNEXT NextOD\nINVARIANT EmitOD\nCHECK_DEADLOCK FALSE\n"
    recs = ctx.tlc_emit("Gen_OnDemand", cfg=cfg, tag=tag, timeout=3000, xmx="12g")
    ctx.log(f"{tag}: {consts}: {len(recs)} (text, path) cases, {sum(1 for r in recs if r['found'])} resolving, in {ctx.tlc_runs[-1]['wall']}s")
    return recs


def rows_c10(recs):
    rows = []
    for i, r in enumerate(recs):
        rows.append([str(i), hexs(r["t"]), path_str(r["path"]), "1" if r["found"] else "0",
                     T.canon(r["v"]) if r["found"] else "-"])
    return rows


def describe(row):
    t = bytes.fromhex(row[1]) if row[1] != "-" else b""
    return dict(text=list(t), text_repr=repr(t)[2:-1], path=row[2], expected_found=row[3] == "1", expected_value=row[4])


def replay_od(ctx, mode, rows, builds, pads, want_digest=False, name="od", shards=None):
    bins = ctx.build("rt_ondemand.cpp", builds)
    nsh = shards or max(1, min(8, (len(rows) + 1999) // 2000))
    per = (len(rows) + nsh - 1) // nsh
    jobs = []
    for s in range(nsh):
        part = rows[s * per:(s + 1) * per]
        if not part:
            continue
        p = os.path.join(ctx.work, f"{name}_{s}.tsv")
        T.write_rows(p, part)
        for b in builds:
            jobs.append((b, s, p, s * per))
    padarg = ",".join(map(str, pads))

    def one(job):
        b, s, p, base = job
        dig = os.path.join(ctx.work, f"{name}_dig_{b}_{s}") if want_digest else "-"
        f, other, n = run_cases(ctx, bins[b], [mode, padarg, dig], p, b, timeout=3000)
        return b, base, f, n, dig

    fails, digests = [], {}
    for b, base, f, n, dg in parallel(one, jobs):
        ctx.evals += n
        for idx, kind, detail in f:
            fails.append((b, base + idx, kind, detail))
        if dg != "-" and os.path.exists(dg):
            digests.setdefault(b, []).extend(l.rstrip("\n") for l in open(dg))
    return fails, digests


def shape_of(row, kind):
    """Fixed vocabulary describing a failing on-demand case (for known-finding matching)."""
    t = bytes.fromhex(row[1]) if row[1] != "-" else b""
    steps = row[2].split("/") if row[2] != "-" else []
    sh = dict(kind=kind)
    sh["last_step"] = "none" if not steps else ("index>=1" if steps[-1].startswith("i:") and int(steps[-1][2:]) >= 1 else
                                               "index0" if steps[-1] == "i:0" else
                                               "index<0" if steps[-1].startswith("i:") else "key")
    sh["empty_input"] = len(t.strip()) == 0
    return sh


def record(ctx, rows, fails, own, corpus, harness="rt_ondemand.cpp", mode="c10"):
    other = {}
    for b, idx, kind, detail in fails:
        base = kind.split(":", 1)[1] if ":" in kind and not kind.startswith("crash") else kind
        if kind.startswith("crash"):
            base = "crash"
        if base not in own:
            other[base] = other.get(base, 0) + 1
            continue
        row = rows[idx]
        d = describe(row)
        ctx.add_fail(dict(property=ctx.prop, kind=base, corpus=corpus, build=b, api=kind.split(":")[0], detail=detail,
                          case=d, sig=(base if base != "crash" else kind), shape=shape_of(row, base),
                          replay=dict(harness=harness, mode=mode, row=row)))
    if other:
        ctx.extra.setdefault("failures_owned_by_other_properties", {}).update(other)
        ctx.log("note: failure kinds owned by other properties:", other)


def replay_file(path):
    rec = json.load(open(path))
    ctx = Ctx(rec["property"] + "-replay", "quick")
    row = rec["replay"]["row"]
    builds = ["prod-avx2", "asan-avx2", "prod-sse", "asan-sse", "prod-dyn", "asan-dyn"]
    fails, _ = replay_od(ctx, rec["replay"].get("mode", "c10"), [row], builds, list(range(0, 71)), shards=1, name="replay")
    print("case:", json.dumps(describe(row)))
    for b, idx, kind, detail in fails:
        print(f"  build={b} kind={kind} {detail}")
    if not fails:
        print("  no failure reproduced")
    ctx.cleanup()
    return 1 if fails else 0
