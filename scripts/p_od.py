"""On-demand corpora and replay (C10, C11)."""
import os, json
from vlib import *
import p_text as T


def path_str(path):
    if not path:
        return "-"
    out = []
    for s in path:
        out.append("k:" + hexs(s["b"]) if s["k"] == "key" else "i:%d" % s["n"])
    return "/".join(out)


def gen_od(ctx, consts, tag, equiv=True):
    cfg = "CONSTANTS\n" + "\n".join(f"  {k} = {v}" for k, v in consts.items()) + \
          "\nINIT InitOD\nNEXT NextOD\nINVARIANT EmitOD\n" + ("INVARIANT ODEquiv\n" if equiv else "") + "CHECK_DEADLOCK FALSE\n"
    # ODEquiv: the scanner model (spec/SkipScan.tla) against Lookup on every generated case (exit 12 = invariant violated)
    recs = ctx.tlc_emit("Gen_OnDemand", cfg=cfg, tag=tag, timeout=3000, xmx="12g", ok_exits=(0, 12), extra=["-continue"])
    if ctx.last_emit["exit"] == 12 or "ODEquiv is violated" in ctx.last_emit["out"]:
        ctx.add_fail(dict(property=ctx.prop, kind="model", sig="model:SkipScan", shape=dict(kind="model"), build="tlc",
                          detail="SkipScan!Equiv / InBounds violated on a generated (text, path) case: " + ctx.last_emit["out"][-1500:], case={},
                          replay=dict(harness="Gen_OnDemand")))
    ctx.log(f"{tag}: {consts}: {len(recs)} (text, path) cases, {sum(1 for r in recs if r['found'])} resolving, in {ctx.tlc_runs[-1]['wall']}s")
    return recs


SIG11 = "{123,125,91,93,44,58,34,92,97,49,32}"
SIG9 = "{123,125,91,93,44,58,34,97,49}"
SIG10E = "{123,125,91,93,44,58,34,92,97,32}"


def mc_skipscan(ctx, builds):
    """spec/SkipScan.tla (I-model of GetOnDemand and its primitives): InBounds and Equiv for every byte string up to a bound
    and for every viable prefix up to a larger bound; then the model's predictions for every (string, path) are compared
    with the real scanner (DRIFT, not a verdict)."""
    q = ctx.quick
    runs = [("all", SIG11, 4 if q else 5, "FALSE"), ("pruned", SIG9, 7 if q else 8, "TRUE"), ("prunedesc", SIG10E, 6 if q else 8, "TRUE")]
    tmpl = "CONSTANTS\n  Sigma = %s\n  MaxLen = %d\n  Prune = %s\nINIT Init\nNEXT Next\nINVARIANT Inv\n%sCHECK_DEADLOCK FALSE\n"

    def one(r):
        name, sig, ml, pr = r
        return name, ctx.tlc("MC_SkipScan", cfg=tmpl % (sig, ml, pr, ""), tag=f"MC_SkipScan_{name}", timeout=3000, xmx="10g", workers=5)
    bad = False
    for name, r in parallel(one, runs, workers=3):
        v = "is violated" in r["out"] or r["exit"] != 0
        bad = bad or v
        ctx.log(f"MC_SkipScan[{name}]: {r['distinct']} byte strings x 10 paths, InBounds/Equiv {'VIOLATED' if v else 'hold'} (exit {r['exit']})")
        if v:
            ctx.add_fail(dict(property=ctx.prop, kind="model", sig="model:SkipScan", shape=dict(kind="model"), build="tlc",
                              detail=f"MC_SkipScan[{name}]: " + r["out"][-1500:], case={}, replay=dict(harness="MC_SkipScan")))
    # drift: predictions for all strings <= 4 over 11 symbols x 10 paths
    recs = ctx.tlc_emit("MC_SkipScan", cfg=tmpl % (SIG11, 4, "FALSE", "INVARIANT EmitOD\n"), tag="MC_SkipScan_emit", timeout=1500, xmx="10g", workers=1)
    rows = [[str(i), hexs(r["t"]), path_str(r["path"]), "0", "-"] for i, r in enumerate(recs)]
    fails, digs = replay_od(ctx, "c11", rows, builds, [0], want_digest=True, name="skipscan")
    drift = {}
    for b, lines in digs.items():
        for l in lines:
            a = l.split("\t")
            if len(a) < 5:
                continue
            r = recs[int(a[0])]
            err = int(a[2])
            cls = 100 if err in (4, 5, 6) else err
            if (cls != r["err"]):
                drift["err"] = drift.get("err", 0) + 1
                if len(drift.setdefault("examples", [])) < 5:
                    drift["examples"].append(dict(text=bytes(r["t"]).decode("latin1"), path=path_str(r["path"]), model=r["err"], code=err, build=b))
            elif err == 0 and (int(a[3]) != r["start"] or int(a[4]) != r["len"]):
                drift["slice"] = drift.get("slice", 0) + 1
    ctx.extra["skipscan_drift"] = drift
    ctx.log(f"SkipScan vs code: {len(rows)} (byte string, path) cases x {len(builds)} builds; drift (model prediction vs code, not a verdict): {drift or 'none'}")
    return bad


def gen_rand_od(ctx, num, grow, laye, procs=8):
    """spec/Gen_RandOD.tla under tlc -simulate: a tree grown by random insertions, one resolving and one missing path per node;
    the scanner model (SkipScan) is evaluated on every emitted case (RODEquiv)."""
    cfg = (f"CONSTANTS MaxNodes = 1 MaxNodes2 = 1 Pool = 4 Layouts = {{0}} Wide = FALSE SMode = \"pairs\" LayE = {laye} LayV = 0 "
           f"GrowSteps = {grow} EditSteps = 0 FixFound = TRUE FixArr = TRUE FixEmpty = TRUE\nINIT OInit\nNEXT ONext\nINVARIANT OEmit\nINVARIANT RODEquiv\nCHECK_DEADLOCK FALSE\n")
    parts = parallel(lambda k: ctx.tlc_emit("Gen_RandOD", cfg=cfg, simulate=num, depth=grow + 2, workers=1, timeout=1500, xmx="3g",
                                            tag=f"Gen_RandOD_w{k}_{laye}", seed=ctx.seed * 1000 + 17 * k + laye, ok_exits=(0, 12)), list(range(procs)), workers=procs)
    for tr in ctx.tlc_runs[-procs:]:
        if tr.get("exit") == 12:
            ctx.add_fail(dict(property=ctx.prop, kind="model", sig="model:SkipScan", shape=dict(kind="model"), build="tlc",
                              detail="SkipScan!Equiv / InBounds violated on a simulated (text, path) case (Gen_RandOD!RODEquiv)", case={}, replay=dict(harness="Gen_RandOD")))
            break
    recs = [r for part in parts for r in part]
    ctx.log(f"Gen_RandOD (layout {laye}): {len(recs)} (text, path) cases from TLC simulation (trees grown by {grow} random insertions; one resolving and one missing path per node), "
            f"{sum(1 for r in recs if r['found'])} resolving")
    return recs


def rows_c10(recs):
    rows = []
    for i, r in enumerate(recs):
        rows.append([str(i), hexs(r["t"]), path_str(r["path"]), "1" if r["found"] else "0",
                     T.canon(r["v"]) if r["found"] else "-"])
    return rows


def describe(row):
    t = bytes.fromhex(row[1]) if row[1] != "-" else b""
    return dict(text=list(t), text_repr=repr(t)[2:-1], path=row[2], expected_found=row[3] == "1", expected_value=row[4])


def replay_od(ctx, mode, rows, builds, pads, want_digest=False, name="od", shards=None):
    bins = ctx.build("rt_ondemand.cpp", builds)
    nsh = shards or max(1, min(8, (len(rows) + 1999) // 2000))
    per = (len(rows) + nsh - 1) // nsh
    jobs = []
    for s in range(nsh):
        part = rows[s * per:(s + 1) * per]
        if not part:
            continue
        p = os.path.join(ctx.work, f"{name}_{s}.tsv")
        T.write_rows(p, part)
        for b in builds:
            jobs.append((b, s, p, s * per))
    padarg = ",".join(map(str, pads))

    def one(job):
        b, s, p, base = job
        dig = os.path.join(ctx.work, f"{name}_dig_{b}_{s}") if want_digest else "-"
        f, other, n = run_cases(ctx, bins[b], [mode, padarg, dig], p, b, timeout=3000)
        return b, base, f, n, dig

    fails, digests = [], {}
    for b, base, f, n, dg in parallel(one, jobs):
        ctx.evals += n
        for idx, kind, detail in f:
            fails.append((b, base + idx, kind, detail))
        if dg != "-" and os.path.exists(dg):
            digests.setdefault(b, []).extend(l.rstrip("\n") for l in open(dg))
    return fails, digests


def shape_of(row, kind):
    """Fixed vocabulary describing a failing on-demand case (for known-finding matching)."""
    t = bytes.fromhex(row[1]) if row[1] != "-" else b""
    steps = row[2].split("/") if row[2] != "-" else []
    sh = dict(kind=kind)
    sh["last_step"] = "none" if not steps else ("index>=1" if steps[-1].startswith("i:") and int(steps[-1][2:]) >= 1 else
                                               "index0" if steps[-1] == "i:0" else
                                               "index<0" if steps[-1].startswith("i:") else "key")
    sh["empty_input"] = len(t.strip()) == 0
    return sh


def record(ctx, rows, fails, own, corpus, harness="rt_ondemand.cpp", mode="c10"):
    other = {}
    for b, idx, kind, detail in fails:
        base = kind.split(":", 1)[1] if ":" in kind and not kind.startswith("crash") else kind
        if kind.startswith("crash"):
            base = "crash"
        if base not in own:
            other[base] = other.get(base, 0) + 1
            continue
        row = rows[idx]
        d = describe(row)
        ctx.add_fail(dict(property=ctx.prop, kind=base, corpus=corpus, build=b, api=kind.split(":")[0], detail=detail,
                          case=d, sig=(base if base != "crash" else kind), shape=shape_of(row, base),
                          replay=dict(harness=harness, mode=mode, row=row)))
    if other:
        ctx.extra.setdefault("failures_owned_by_other_properties", {}).update(other)
        ctx.log("note: failure kinds owned by other properties:", other)


def replay_file(path):
    rec = json.load(open(path))
    ctx = Ctx(rec["property"] + "-replay", "quick")
    row = rec["replay"]["row"]
    builds = ["prod-avx2", "asan-avx2", "prod-sse", "asan-sse", "prod-dyn", "asan-dyn"]
    fails, _ = replay_od(ctx, rec["replay"].get("mode", "c10"), [row], builds, list(range(0, 71)), shards=1, name="replay")
    print("case:", json.dumps(describe(row)))
    for b, idx, kind, detail in fails:
        print(f"  build={b} kind={kind} {detail}")
    if not fails:
        print("  no failure reproduced")
    ctx.cleanup()
    return 1 if fails else 0
