#!/bin/sh
# Rebuild the repository's own test suite from /repo's working tree with the verification guard
# OFF (no -DSONIC_VERIF_HOOKS anywhere) and run it.  Prints the gtest summary; exit 0 iff exactly
# the 173 baseline tests pass and only the 6 known data-file tests (emptied in this sandbox) fail.
set -e
REPO=${SONIC_REPO:-/repo}
B=$REPO/_build
if [ ! -f "$B/build.ninja" ]; then
  cmake -G Ninja -S "$REPO" -B "$B" -DFETCHCONTENT_SOURCE_DIR_GOOGLETEST=/usr/src/googletest -DCMAKE_BUILD_TYPE=RelWithDebInfo >/dev/null
fi
cmake --build "$B" -j16 2>&1 | tail -3
cd "$B/tests"
./unittest --gtest_output=xml:/tmp/sonic_unittest_$$.xml > /tmp/sonic_unittest_$$.log 2>&1 || true
tail -12 /tmp/sonic_unittest_$$.log
P=$(grep -c '^\[       OK \]' /tmp/sonic_unittest_$$.log || true)
F=$(grep '^\[  FAILED  \]' /tmp/sonic_unittest_$$.log | grep -v 'tests, listed' | grep -vc 'ParseFile\|ParseOnDemandFile' || true)
rm -f /tmp/sonic_unittest_$$.xml /tmp/sonic_unittest_$$.log
echo "passed=$P unexpected_failures=$F"
[ "$P" -ge 173 ] && [ "$F" -eq 0 ]
