#!/usr/bin/env python3
"""Regenerate /verif/MANIFEST.json from the table below (single source of truth for claims)."""
import json, os
ROOT = os.path.dirname(os.path.dirname(os.path.abspath(__file__)))
props = [json.loads(l)["id"] for l in open(os.path.join(ROOT, "properties.jsonl"))]

MC = "model_checking"
CLAIMS = {
 "C01": dict(technique="TLC bounded-exhaustive enumeration from the TLA+ R-model (JsonText) + replay into Document::Parse",
   text="TLC enumerates byte strings (all strings up to a length over 16-symbol alphabets, all viable prefixes beyond, deep nestings) and judges each with the TLA+ recogniser JsonText!ParseText; every judged string is replayed through the real Document::Parse (pool + freeing allocator, fresh + reused document, 8-71 alignments, 3-6 builds) and accept/reject, success offset, null-on-failure, code class and offset range are compared. Exhaustive inside the bounds, nothing beyond.",
   note="Trusted: spec/JsonText.tla + Rounding.tla as the statement of RFC 8259; TLC; the replayer harness/rt_parse.cpp. Fault class demanded exactly only for single-fault texts (JsonText!FaultScope).", ref="4/C01, 11"),
 "C02": dict(technique="TLC-generated inputs (JsonText/Gen_Deep) replayed under ASan+LSan and the guarded poison hook",
   text="The TLC corpora of C01 plus the deep/uneven-nesting generator (reaching the node-stack capacity rule) are parsed into pool and freeing-allocator documents, fresh and reused across failures, under ASan+LSan and in a production build whose unconstructed node-stack cells are poisoned by hook H1; any signal, sanitizer report or leak is a violation.",
   note="Memory safety is observed by ASan/LSan/SIGSEGV/poison while replaying spec-generated inputs; TLC cannot see a stray load (DESIGN section 6).", ref="4/C02, 6"),
}

def main():
    checks = []
    for p in props:
        if p not in CLAIMS:
            continue
        c = CLAIMS[p]
        checks.append(dict(property_id=p, quick_cmd=f"./run.sh {p} quick", thorough_cmd=f"./run.sh {p} thorough",
            evidence_file=f"/verif/evidence/{p}.json", replay_cmd_template=f"./run.sh {p} --replay {{path}}",
            engine="tlc-replay", level_claimed=dict(category=c.get("level", MC), text=c["text"], design_ref=c["ref"]),
            level_note=c["note"], technique=c["technique"]))
    na = [dict(property_id=p, reason=NA.get(p, "check not built yet (work in progress; DESIGN.md section 10 gives the build order)"))
          for p in props if p not in CLAIMS]
    m = dict(version=1,
        setup_cmd="./scripts/setup.sh",
        hooks=dict(guard="SONIC_VERIF_HOOKS",
                   enable="checks compile their harnesses from /repo/include with -DSONIC_VERIF_HOOKS for the 'hook-*' / 'asanhook-*' builds (scripts/vlib.py build_flags)",
                   baseline_off_cmd="./scripts/baseline_off.sh",
                   source_commits=HOOK_COMMITS, add_only=True),
        engines=[dict(name="tlc-replay", path="/verif/scripts/check.py", serves_properties=[c["property_id"] for c in checks],
                      kind_free_text="TLA+ specification (spec/*.tla) model-checked / enumerated by TLC; behaviours replayed into the C++ library and traces recorded from it validated by TLC")],
        checks=checks, not_applicable=na,
        notes="All checks: ./run.sh <ID> quick|thorough. Known findings / repaired defects: known_findings.json. Design: DESIGN.md.")
    json.dump(m, open(os.path.join(ROOT, "MANIFEST.json"), "w"), indent=1)
    print("claimed:", [c["property_id"] for c in checks])

NA = {}
HOOK_COMMITS = ["241599c"]
if __name__ == "__main__":
    main()
