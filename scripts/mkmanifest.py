#!/usr/bin/env python3
"""Regenerate /verif/MANIFEST.json from the table below (single source of truth for claims)."""
import json, os
ROOT = os.path.dirname(os.path.dirname(os.path.abspath(__file__)))
props = [json.loads(l)["id"] for l in open(os.path.join(ROOT, "properties.jsonl"))]

MC = "model_checking"
CLAIMS = {
 "C01": dict(technique="TLC bounded-exhaustive enumeration from the TLA+ R-model (JsonText) + replay into Document::Parse",
   text="TLC enumerates byte strings (all strings up to a length over 16-symbol alphabets, all viable prefixes beyond, deep nestings) and judges each with the TLA+ recogniser JsonText!ParseText; every judged string is replayed through the real Document::Parse (pool + freeing allocator, fresh + reused document, 8-71 alignments, 3-6 builds) and accept/reject, success offset, null-on-failure, code class and offset range are compared. Exhaustive inside the bounds, nothing beyond.",
   note="Trusted: spec/JsonText.tla + Rounding.tla as the statement of RFC 8259; TLC; the replayer harness/rt_parse.cpp. Fault class demanded exactly only for single-fault texts (JsonText!FaultScope).", ref="4/C01, 11"),
 "C02": dict(technique="TLC-generated inputs (JsonText/Gen_Deep) replayed under ASan+LSan and the guarded poison hook",
   text="The TLC corpora of C01 plus the deep/uneven-nesting generator (reaching the node-stack capacity rule) are parsed into pool and freeing-allocator documents, fresh and reused across failures, under ASan+LSan and in a production build whose unconstructed node-stack cells are poisoned by hook H1; any signal, sanitizer report or leak is a violation.",
   note="Memory safety is observed by ASan/LSan/SIGSEGV/poison while replaying spec-generated inputs; TLC cannot see a stray load (DESIGN section 6).", ref="4/C02, 6"),
 "C03": dict(technique="TLC enumeration of valid texts with JsonText!Denote + accessor-walk replay; doubles judged by Rounding!RoundsTo in TLC",
   text="TLC enumerates valid JSON texts (byte strings, token sequences, every syntax tree up to a node bound over pools of scalar spellings x whitespace layouts incl. 65-space runs, wide containers crossing the 4-chunk node copy) together with the value each denotes (JsonText!Denote); the real document is walked through the accessor API only and must be structurally identical (kinds, order, duplicates, decoded bytes, exact integers); every double met is validated by TLC against the exact round-to-nearest-even relation.",
   note="Trusted: JsonText/NumberLex/Rounding as the statement of what a text denotes; harness/walk.h (accessor walk).", ref="4/C03"),
 "C05": dict(technique="TLC enumeration of string literals (escape kind x block offset, all \\u values, surrogate grid) judged by JsonText!DecodeString + replay",
   text="TLC builds literals quote filler^a item1 filler^b item2 filler^c quote over every escape kind, raw special byte and ill-formed escape with offsets that walk the items across 16/32-byte blocks, all 65536 \\uXXXX values, a surrogate boundary grid (thorough: all 1024x1024 pairs), each as root/element/key/value; the spec-level invariant ContextIndependent is model-checked; each case is replayed at every alignment 0..32 in 3-6 builds and accept/reject, decoded bytes and fault class are compared with DecodeString.",
   note="Trusted: JsonText!DecodeString. The on-demand key decode path is covered by C10's corpora.", ref="4/C05"),
 "C15": dict(technique="TLC-generated corpora replayed in six binaries {prod,asan}x{avx2,sse,dyn}; per-input digests compared",
   text="Every text of the TLC corpora (byte strings, tokens, values, strings, mutants, deep nesting) is parsed in the six builds; the digest (accepted?, error class unless the R-model fault is inside a string, accessor-walk hash, Dump hash) must be identical across binaries, and an oracle failure shown by only some builds is a disagreement. The R-models do not mention the vector width, so the specified result is configuration independent by construction.",
   note="Runtime dispatch resolves to the AVX2 clones on this CPU; the SSE clones are exercised only by the static build.", ref="4/C15"),
 "C10": dict(technique="TLC enumeration of (text, path) with JsonValue!Lookup + replay into GetOnDemand / ParseOnDemand / AtPointer",
   text="TLC enumerates rendered syntax trees (incl. empty containers, escaped and duplicate keys, strings containing brackets/quotes/commas, 65-space runs) x whitespace layouts x paths derived from the denoted value (present/absent/raw-spelling keys, indices 0,1,2,size-1,size,-1, wrong-kind steps, depth 2-3) with the expected JsonValue!Lookup; each case is replayed through GetOnDemand (heap, page-end and page-start buffers), Document::ParseOnDemand and AtPointer at 6-71 alignments in 3-6 builds: success iff Lookup is defined, slice inside the input and denoting the expected value, empty slice and non-zero code otherwise.",
   note="Trusted: JsonValue!Lookup over JsonText!Denote; harness/rt_ondemand.cpp.", ref="4/C10"),
 "C11": dict(technique="TLC-generated byte strings (all strings to a bound, tokens, every prefix/mutant of valid texts) replayed on unpadded exact-size and guard-page buffers",
   text="TLC supplies the inputs (every byte string up to a bound over a 16-symbol alphabet incl. the empty string, token sequences with junk tokens, every proper prefix and single-byte mutant of valid texts, string literals with specials at block offsets) x 8 paths; GetOnDemand runs on an exact-size heap block under ASan and, in production builds, on a buffer ending at a page end before PROT_NONE and on one starting at a page start after PROT_NONE; violation = fault / sanitizer report, success with a slice outside the input or offset > len, or a result that depends on the placement.",
   note="Out-of-range reads are observed by ASan and guard pages, not by TLC (DESIGN section 6).", ref="4/C11, 6"),
 "C12": dict(technique="TLC model checking of the DOM state machine (spec/Dom.tla: I-model refines plain containers) + replay of TLC-simulated behaviours on real DNode",
   text="spec/Dom.tla models every mutation operation with the representation the code uses (count in the node, capacity and key->index multimap in the hidden header, growth 16 / x1.5, RemoveMember tail swap with map repair, erase compaction with map destroyed first) next to plain containers; TLC checks exhaustively (small pools, 157k-2.5M states) that the I-model refines the R-model and that map, capacity and lookup invariants hold; TLC-simulated behaviours (16k x 25 steps quick) are replayed on DNode<MemoryPoolAllocator> and DNode<tracking freeing allocator>, comparing the accessor walk, lookups, Dump and return values with the R-state after every step.",
   note="Trusted: Dom!Abs and the R-operations (plain containers); harness/rt_dom.cpp + walk.h. Capacities predicted by the I-model are DRIFT-only.", ref="4/C12"),
 "C13": dict(technique="TLC-simulated DOM behaviours replayed with a tracking freeing allocator; recorded alloc/free traces validated by TLC against Trace_Ownership; LedgerOk model-checked",
   text="The behaviours of spec/Dom.tla (set/add/remove/erase/reserve/clear/copy/move/swap/map, moves out of sub-nodes) are executed on DNode<TrackAllocator> (numbers blocks, poisons on free) under ASan+LSan: a double or foreign free, a block still live after root and aux are destroyed, or a sanitizer report is a violation; deep copies are mutated and destroyed independently; the recorded alloc/free/reset event traces are validated by TLC (Trace_Ownership: free only live ids, nothing live at reset); the ledger invariant (blocks outstanding = blocks reachable) is model-checked on the I-model.",
   note="Document-level histories (Parse/ParseSchema on invalid input, document move/swap) are exercised by the C02/C19 replays under ASan+LSan, not yet by the Dom state machine.", ref="4/C13"),
 "C18": dict(technique="TLC model checking of Dom!EqOk (I-model of operator== vs JSON equality) + replay with equality verdicts from the R-model",
   text="Dom!IEq transcribes operator== (size check, per-member lookup in rhs through its map if any, kind-and-value number compare) and TLC checks on every reachable pair (root, aux) of the DOM state machine that it equals JSON equality REq in both directions, is reflexive and holds for deep copies, whatever capacities, ownership kinds and maps; on replay, after every step, root==aux, aux==root and != are compared with REq, and a deep copy in another allocator type and the parse of Dump() must be == to the original.",
   note="Equality is specified for duplicate-free values only (as the property says); steps whose values contain duplicate keys skip the verdict.", ref="4/C18"),
 "C16": dict(technique="TLC model checking of the pool-allocator state machine (spec/Pool.tla) + replay of TLC-simulated behaviours on the real MemoryPoolAllocator",
   text="spec/Pool.tla models the chunk list (only the head serves), bump allocation with AddChunk on overflow, both chunk policies, Realloc (no shrink, in-place growth iff most recent block and room, else copy), Clear and refcounted handles, with memory contents as per-word tags; TLC checks alignment, one-chunk containment, disjointness, undisturbed contents, accounting and pool lifetime exhaustively to a depth bound in 4-5 configurations (simple/adaptive policy, aligned and misaligned user buffer); simulated behaviours are replayed on MemoryPoolAllocator<tracking base allocator> and the same properties are evaluated on the real addresses, block contents, Size() and Capacity() after every step.",
   note="Chunk sizes are scaled (64/256 bytes, adaptive max 256 via -DSONIC_ALLOCATOR_MAX_CHUNK_CAPACITY) so that chunk edges are reached in short behaviours. Predicted Size()/Capacity() are DRIFT-only.", ref="4/C16"),
 "C04": dict(technique="trace validation: recorded (spelling, parsed result) events judged by TLC with exact BigNat relations (NumberLex kind rule, Rounding!RoundsTo / Overflows)",
   text="The library parses number spellings - TLC's structural classes (sign x integer-digit count x fraction-digit count x exponent form x pattern), exact midpoints between adjacent doubles for sampled binary exponents with their last-digit neighbours in every parser layout (incl. all digits before a bare exponent), one spelling per power-of-ten table row at 17 and 19 digits, fast-path edges, 19/20-digit integer boundaries, zeros with huge exponents, the overflow threshold, random - as root, array element, member value and after blanks; each recorded result is validated by TLC: integer kind and exact digits, or the correctly rounded double (ties to even, subnormals, signed zero), or the infinity error.",
   note="Sample of an unbounded input space: the claim covers the explored spellings only. Input constructions (midpoints etc.) are computed in Python with exact integers and never decide a verdict.", ref="4/C04, 6"),
 "C07": dict(technique="trace validation: recorded (double, printed text) events judged by TLC (Shortest!IsShortestRoundTrip + format clauses on BigNat)",
   text="F64toa / Serialize output for bit patterns covering every binary exponent x boundary and random significands, every decade 1e-323..1e308 with neighbours, all powers of two +-1 ulp, integers near 2^53, the 1e21 / 1e-6 format switches, single-precision values, subnormals of every length and random doubles is validated by TLC: JSON number with fraction or exponent, at most 32 bytes, sign kept, reads back (nearest-even) to the same double, no decimal with fewer digits in the rounding interval, closest among same-length candidates; the library must also parse its own output back to the same bits.",
   note="Sample of 2^64 inputs; claim limited to the explored set.", ref="4/C07, 6"),
 "C08": dict(technique="trace validation: recorded (integer, printed text) events judged by TLC (Trace_Num!ItoaOk) + amplification sweep",
   text="U64toa / I64toa / Dump output for TLC's structural classes (digit count x zero/nine group patterns), every 10^k-1,10^k,10^k+1 and 2^k+-1, 8-digit group patterns at each group position and random values per digit count is validated by TLC (optional '-', then exactly the digits) and re-parsed (kind and value kept); additionally all 10^8 values of each 8-digit group position are swept against a C++ transliteration of the same relation (amplification outside TLC).",
   note="The exhaustive group sweeps are not TLC evaluations; they use a transliteration of Trace_Num!ItoaOk.", ref="4/C08"),
 "C09": dict(technique="TLC enumeration of byte strings with the canonical quoting (Gen_Quote!SpecOk model-checked) + replay on guard-page and exact-size buffers; non-canonical outputs judged by Render!IsQuotingOf in TLC",
   text="TLC generates byte strings (every byte value at offsets across 16/32-byte blocks and the tail, pairs and runs of specials, plain strings of every length 0..140) with Render!Quote; internal::Quote and Serialize are run on each from a heap source and, in production builds, from sources ending 0..100 bytes before an unmapped page with two different garbage fillings behind the string: output must be a quoting of the input (canonical, or validated by TLC against the relation IsQuotingOf), at most 6n+2 bytes, identical for both fillings and all placements, with the destination canaries behind 6n+35 intact and no fault.",
   note="Out-of-bounds accesses are observed by guard pages / ASan.", ref="4/C09, 6"),
 "C14": dict(technique="TLC enumeration of byte-range pairs and key sets with MemEq/MemSign/KeyLess + replay at page ends",
   text="Gen_MemCmp (R-model: equality, sign of the first difference with unsigned bytes, map ordering; LessIsStrictOrder model-checked) generates pairs of every length 0..130 that are equal or differ at boundary/middle positions with values on both sides of 0x80, plus key sets; replayed against InlinedMemcmpEq, InlinedMemcmp, FindMember (both overloads), HasMember and lookup after CreateMap with both operands at 13 x 13 distances from an unmapped page in production builds (the in-page fast path), exact-size heap blocks under ASan, static AVX2/SSE and dynamic dispatch.",
   note="Guard pages observe the page-end clause; the direct InlinedMemcmp calls are compiled only in static-dispatch builds.", ref="4/C14"),
 "C06": dict(technique="trace validation: recorded (document, serialised bytes) events judged by TLC with the TLA+ recogniser JsonText and value comparison; replay over write-buffer starting capacities",
   text="Documents are parsed from TLC-generated valid texts (all kinds, empty containers as last child, scalar roots, duplicate keys, every byte value in string values and keys, specials at block offsets, wide containers, number-kind boundaries) and re-assembled through the mutation API; each is serialised into write buffers of about 30 starting capacities around the output length and the serializer's estimate (ASan observes the unchecked writes); the recorded output is validated by TLC: JsonText!ParseText accepts it and what it denotes equals the accessor walk of the document, number kinds included and every double reading back to its exact bit pattern; the library must re-parse it to an identical walk and re-serialise the same bytes; a non-finite double planted at every number position must give the infinity error and an empty Dump.",
   note="The independent recogniser the property asks for is the TLA+ module JsonText evaluated by TLC.", ref="4/C06"),
 "C19": dict(technique="TLC enumeration of (existing value, text) pairs with the R-model SchemaMerge (Gen_Schema.tla; Idempotent model-checked) + replay through Parse + ParseSchema",
   text="TLC enumerates every pair of duplicate-free values up to a node bound (78k pairs quick: every kind combination at the root and at matched keys, nested objects, undeclared keys) with SchemaMerge(E, V) from the property text; the real Document (pool and freeing allocator, ASan) parses E, applies ParseSchema(V) once and twice, and the accessor walk must equal the expected value each time, Dump must read back. Three recorded deviations of the library (known_findings.json: empty text object vs non-empty existing object; text array holding an object vs existing object, value and memory effect) are reported as KNOWN-FINDING; a failure on a pair none of these causes can act on is a VIOLATION.",
   note="A pair is attributed to a recorded deviation only from its two input values (scripts/c19.py causes()), never from the observed result.", ref="4/C19, 8"),
 "C20": dict(technique="TLC enumeration of (target, source) pairs with the R-model LazyMerge (Gen_Schema.tla) + replay through UpdateLazy",
   text="TLC enumerates every pair of duplicate-free values up to a node bound, including objects whose keys are spelled with escapes (keys matched by decoded value), with LazyMerge(T, S) from the property text; UpdateLazy runs on exact-size heap copies of the two texts under ASan and its result must parse to the expected value.",
   note="R-model: LazyMerge; the result is read back with the library's own parser (C01/C03 cover it).", ref="4/C20"),
}

def main():
    checks = []
    for p in props:
        if p not in CLAIMS:
            continue
        c = CLAIMS[p]
        checks.append(dict(property_id=p, quick_cmd=f"./run.sh {p} quick", thorough_cmd=f"./run.sh {p} thorough",
            evidence_file=f"/verif/evidence/{p}.json", replay_cmd_template=f"./run.sh {p} --replay {{path}}",
            engine="tlc-replay", level_claimed=dict(category=c.get("level", MC), text=c["text"], design_ref=c["ref"]),
            level_note=c["note"], technique=c["technique"]))
    na = [dict(property_id=p, reason=NA.get(p, "check not built yet (work in progress; DESIGN.md section 10 gives the build order)"))
          for p in props if p not in CLAIMS]
    m = dict(version=1,
        setup_cmd="./scripts/setup.sh",
        hooks=dict(guard="SONIC_VERIF_HOOKS",
                   enable="checks compile their harnesses from /repo/include with -DSONIC_VERIF_HOOKS for the 'hook-*' / 'asanhook-*' builds (scripts/vlib.py build_flags)",
                   baseline_off_cmd="./scripts/baseline_off.sh",
                   source_commits=HOOK_COMMITS, add_only=True),
        engines=[dict(name="tlc-replay", path="/verif/scripts/check.py", serves_properties=[c["property_id"] for c in checks],
                      kind_free_text="TLA+ specification (spec/*.tla) model-checked / enumerated by TLC; behaviours replayed into the C++ library and traces recorded from it validated by TLC")],
        checks=checks, not_applicable=na,
        notes="All checks: ./run.sh <ID> quick|thorough. Known findings / repaired defects: known_findings.json. Design: DESIGN.md.")
    json.dump(m, open(os.path.join(ROOT, "MANIFEST.json"), "w"), indent=1)
    print("claimed:", [c["property_id"] for c in checks])

NA = {}
HOOK_COMMITS = ["241599c"]
if __name__ == "__main__":
    main()
