"""Input constructions for the numeric checks (inputs only - every verdict is TLC's, spec/Trace_Num.tla):
exact midpoints between adjacent doubles and their off-by-one-digit neighbours in every layout of
the number parser, one spelling per row of the power-of-ten tables, integer-kind boundaries, bit
patterns per binary exponent / per decade for the printer."""
import random, struct
from fractions import Fraction


def d2b(x):
    return struct.unpack("<Q", struct.pack("<d", x))[0]


def b2d(b):
    return struct.unpack("<d", struct.pack("<Q", b))[0]


def exact_decimal(fr):
    """Fraction with power-of-two denominator -> (digits:str, e10:int) exactly, digits without trailing zeros."""
    num, den = fr.numerator, fr.denominator
    k = den.bit_length() - 1           # den = 2^k
    n = num * 5 ** k                   # value = n / 10^k
    s = str(n)
    e = -k
    t = s.rstrip("0")
    e += len(s) - len(t)
    return (t or "0"), e


def spellings(digits, e10, rng, full):
    """The decimal digits*10^e10 written in the layouts that select different parser paths."""
    out = []
    nd = len(digits)
    # 1. all significant digits as integer digits, followed directly by an exponent
    out.append(f"{digits}e{e10}" if e10 else digits)
    # 2. scientific: point after the first digit
    if nd > 1:
        out.append(f"{digits[0]}.{digits[1:]}e{e10 + nd - 1}")
    # 3. point after 17 / 19 / 20 digits
    for k in (17, 19, 20):
        if nd > k:
            out.append(f"{digits[:k]}.{digits[k:]}e{e10 + nd - k}")
    # 4. leading fraction zeros: 0.000ddd
    if full or rng.random() < 0.3:
        z = rng.choice([0, 1, 5, 20])
        out.append(f"0.{'0' * z}{digits}e{e10 + nd + z}")
    # 5. trailing zeros and a capital E with explicit plus sign
    if full or rng.random() < 0.3:
        out.append(f"{digits}000E{'+' if e10 - 3 >= 0 else ''}{e10 - 3}")
    # 6. plain positional notation when it is short enough
    if -30 < e10 < 0 and nd + e10 > 0:
        out.append(f"{digits[:nd + e10]}.{digits[nd + e10:]}")
    elif 0 <= e10 < 25:
        out.append(digits + "0" * e10)
    return out


def neighbours(digits):
    """digits +- 1 in the last place (as strings of the same scale)"""
    n = int(digits)
    return [str(n + 1), str(n - 1)] if n > 1 else [str(n + 1)]


def hard_midpoints(rng, e10s, trials, keep, nd=19):
    """For each decimal exponent e10: nd-digit mantissas D such that D*10^e10 lies extremely close to the
    midpoint of two adjacent doubles (found by scanning 'trials' random doubles of that decade and keeping
    the 'keep' closest).  These are the inputs on which the low word of a power-of-ten table row matters,
    for parsing (C04) and - through the two adjacent doubles - for shortest printing (C07).
    Returns [(D, e10, bits_lo)] where bits_lo is the double just below the midpoint."""
    out = []
    for e10 in e10s:
        lo10, hi10 = 10 ** (nd - 1), 10 ** nd
        cands = []
        for _ in range(trials):
            D0 = rng.randrange(lo10, hi10)
            try:
                x = float(f"{D0}e{e10}")
            except (OverflowError, ValueError):
                continue
            if x == 0.0 or x == float("inf"):
                continue
            b = d2b(x)
            be, m = b >> 52, b & ((1 << 52) - 1)
            if be == 0 or be >= 2046:
                continue
            mm, q = (1 << 52) | m, be - 1075
            # midpoint (2mm+1) * 2^(q-1) in units of 10^e10 = num / den
            num = (2 * mm + 1) * (1 << max(q - 1, 0)) * 10 ** max(-e10, 0)
            den = (1 << max(1 - q, 0)) * 10 ** max(e10, 0)
            D = (2 * num + den) // (2 * den)
            if not (lo10 <= D < hi10):
                continue
            err = abs(D * den - num)                     # distance to the midpoint, in 1/den units of 10^e10
            ulp = (1 << max(q, 0)) * 10 ** max(-e10, 0) * den // ((1 << max(-q, 0)) * 10 ** max(e10, 0)) or 1
            cands.append((err / ulp if ulp else 0.0, D, b))
        cands.sort()
        for _, D, b in cands[:keep]:
            out.append((D, e10, b))
    return out


def c04_inputs(rng, quick):
    out = []
    bexps = list(range(1, 2047, 97 if quick else 7)) + [1, 2, 1022, 1023, 1024, 1075, 1076, 2045, 2046]
    mants = [0, 1, (1 << 52) - 1, (1 << 51)]
    for be in sorted(set(bexps)):
        for m in mants + [rng.getrandbits(52) for _ in range(1 if quick else 3)]:
            if be == 2046 and m == (1 << 52) - 1:
                continue
            bits = (be << 52) | m
            mm = (1 << 52) | m
            q = be - 1075
            mid = Fraction(2 * mm + 1) * (Fraction(2) ** (q - 1))          # halfway to the next double
            dg, e = exact_decimal(mid)
            cands = [(dg, e)] + [(x, e) for x in neighbours(dg)]
            # a longer spelling just above / below the midpoint
            cands += [(dg + "0000001", e - 7), (str(int(dg) * 10 - 1), e - 1)]
            for d, ee in cands:
                sp = spellings(d, ee, rng, not quick)
                out += sp if not quick else sp[:4]
    # subnormals: midpoints between the smallest values, and the zero/denormal boundary
    for m in [0, 1, 2, 3, (1 << 52) - 2, (1 << 52) - 1] + [rng.getrandbits(52) for _ in range(4)]:
        mid = Fraction(2 * m + 1) * (Fraction(2) ** (-1075))
        dg, e = exact_decimal(mid)
        for d, ee in [(dg, e)] + [(x, e) for x in neighbours(dg)]:
            out += spellings(d, ee, rng, False)[:3]
    # one spelling per row of the 128-bit power-of-ten table (decimal exponents -348..348) at 17 and 19 digits,
    # plus near-halfway decimals for that exponent found by scanning random mantissas
    for e10 in range(-345, 310, 5 if quick else 1):
        for nd in (17, 19):
            m = rng.randrange(10 ** (nd - 1), 10 ** nd)
            out.append(f"{m}e{e10}")
            out.append(f"{str(m)[0]}.{str(m)[1:]}e{e10 + nd - 1}")
    # near-halfway mantissas per table row (the low 64 bits of the row decide the rounding)
    for D, e10, b in hard_midpoints(rng, range(-342, 290, 4 if quick else 1), 40 if quick else 400, 2 if quick else 6):
        out += [f"{D}e{e10}", f"{D + 1}e{e10}", f"{D - 1}e{e10}", f"{str(D)[0]}.{str(D)[1:]}e{e10 + 18}"]
    for D, e10, b in hard_midpoints(rng, range(-330, 290, 7 if quick else 1), 40 if quick else 300, 1 if quick else 4, nd=17):
        out += [f"{D}e{e10}", f"{str(D)[:3]}.{str(D)[3:]}e{e10 + 14}"]
    # hardest cases per table row by continued fractions: decimals within ~1e-17 .. 1e-20 ulp of a midpoint
    seen_cf = set()
    for D, e10, b, err in cf_hard_cases(range(-342, 309), keep=1 if quick else 5):
        if (D, e10) in seen_cf:
            continue
        seen_cf.add((D, e10))
        ds = str(D)
        out += [f"{ds}e{e10}", f"{ds[0]}.{ds[1:]}e{e10 + len(ds) - 1}" if len(ds) > 1 else f"{ds}.0e{e10}"]
        if not quick:
            out += [f"{D + 1}e{e10}", f"{D - 1}e{e10}", f"0.{ds}e{e10 + len(ds)}"]
    # exact fast path edges: mantissa below 2^53 with exponent 22..37 and -22
    for m in [(1 << 52) - 1, (1 << 53) - 1, 4503599627370495, 1234567890123457, 9007199254740991, 9007199254740993]:
        for e10 in (0, 1, 15, 22, 23, 29, 30, 36, 37, 38, -1, -22, -23):
            out.append(f"{m}e{e10}")
    # integer kinds: 19/20-digit boundaries
    for n in [2 ** 63 - 1, 2 ** 63, 2 ** 63 + 1, 2 ** 64 - 1, 2 ** 64, 2 ** 64 + 1, 10 ** 19 - 1, 10 ** 19, 10 ** 20 - 1, 10 ** 20,
              18446744073709551609, 18446744073709551620, 9999999999999999999, 99999999999999999999, 30000000000000000000,
              20496382304121724017, 92233720368547758079, 1844674407370955161, 184467440737095516150]:
        out += [str(n), "-" + str(n), str(n) + ".0", str(n) + "e0"]
    for k in range(0, 20):
        out += [str(10 ** k), "-" + str(10 ** k), str(10 ** k - 1) if k else "0"]
    # zero mantissas of every length (the value is zero whatever the number of fraction digits), and the same spellings
    # with one significant digit in front / behind
    for n in (list(range(1, 70)) + list(range(70, 420, 7 if quick else 1))):
        z = "0" * n
        out += ["0." + z, "-0." + z, "0." + z + "1", "1." + z, "0." + z + "e1", "0." + z + "E-5", "10." + z + "1"]
    # the overflow boundary at every mantissa length and the other class edges (scripts/gen_num_atoms.py)
    import gen_num_atoms
    out += gen_num_atoms.atoms()
    # zeros written with many digits / huge exponents
    out += ["0e999999", "-0e-999999", "0." + "0" * 400, "0." + "0" * 400 + "e500", "-0.0", "0.0e-0", "0" + "." + "0" * 20 + "1e21"]
    # overflow boundary
    out += ["1.7976931348623157e308", "1.7976931348623158e308", "1.7976931348623159e308", "17976931348623158079e289",
            "179769313486231580793728971405303415079934132710037826936173778980444968292764750946649017977587207096330286416692887910946555547851940402630657488671505820681908902000708383676273854845817711531764475730270069855571366959622842914819860834936475292719074168444365510704342711559699508093042880177904174497791e0",
            "179769313486231580793728971405303415079934132710037826936173778980444968292764750946649017977587207096330286416692887910946555547851940402630657488671505820681908902000708383676273854845817711531764475730270069855571366959622842914819860834936475292719074168444365510704342711559699508093042880177904174497792e0",
            "2e308", "1e309", "-1.8e308", "4.9e-324", "2.4703282292062327e-324", "2.4703282292062328e-324", "2.47e-324"]
    # random doubles, shortest and over-long spellings
    for _ in range(200 if quick else 6000):
        b = rng.getrandbits(64) & ~(1 << 63)
        if (b >> 52) == 2047:
            continue
        x = b2d(b)
        out.append(repr(x))
        out.append("%.25e" % x)
    seen, res = set(), []
    for s in out:
        if s not in seen:
            seen.add(s)
            res.append(s)
    return res


def c07_inputs(rng, quick):
    bits = []
    for be in range(0, 2047, 13 if quick else 1):
        for m in [0, 1, (1 << 52) - 1, 1 << 51, rng.getrandbits(52)] + ([] if quick else [rng.getrandbits(52) for _ in range(2)]):
            bits.append((be << 52) | m)
    # every binary exponent with random significands: an error in the upper bits of the low word of a table row moves the
    # computed interval ends by a fraction of a unit, which a few per cent of all doubles served by that row expose
    for be in range(1, 2047):
        for _ in range(2 if quick else 12):
            bits.append((be << 52) | rng.getrandbits(52))
    for k in range(-323, 309, 6 if quick else 1):          # decades (one table entry each): nearest doubles to c * 10^k
        for c in ("1", "3", "7"):
            try:
                x = float(f"{c}e{k}")
            except Exception:
                continue
            if x == 0.0 or x == float("inf"):
                continue
            b = d2b(x)
            bits += [b, b + 1, b - 1]
    # doubles adjacent to a midpoint that an (almost) 17-digit decimal nearly hits: the decimal is barely inside or
    # outside their rounding intervals, so the low word of the table entry of that decade decides
    for D, e10, b in hard_midpoints(rng, range(-340, 292, 3 if quick else 1), 30 if quick else 300, 2 if quick else 8, nd=17):
        bits += [b, b + 1]
    for D, e10, b in hard_midpoints(rng, range(-340, 292, 5 if quick else 1), 30 if quick else 300, 1 if quick else 6, nd=16):
        bits += [b, b + 1]
    # the two doubles adjacent to a midpoint that a 16..19-digit decimal hits within ~1e-17 ulp (continued fractions): the
    # decimal is barely inside or outside their rounding intervals, so the low word of the decade's table entry decides
    for D, e10, b, err in cf_hard_cases(range(-342, 309), digit_ranges=((14, 15), (15, 16), (16, 17), (17, 18)), keep=2 if quick else 10):
        bits += [b, b + 1]
    for e in range(-1074, 1024, 9 if quick else 1):          # powers of two and their neighbours (irregular boundary)
        b = d2b(2.0 ** e)
        bits += [b, b + 1] + ([b - 1] if b > 1 else [])
    for n in [0, 1, 2, 3, 10, 100, 123456789, 2 ** 53 - 1, 2 ** 53, 2 ** 53 + 2, 10 ** 15, 10 ** 16, 10 ** 17, 10 ** 20, 10 ** 21, 10 ** 22,
              999999999999999868928, 1000000000000000000000, 1000000000000000131072]:
        bits.append(d2b(float(n)))
    for x in [1e-5, 1e-6, 1e-7, 9.999999999999999e-7, 1.0000000000000002e-6, 0.001, 0.3, 1e20, 1e21, 9.999999999999999e20, 1.0000000000000001e21,
              5e-324, 1e-323, 2.2250738585072014e-308, 2.225073858507201e-308, 1.7976931348623157e308, 4.35e-311, 5.88823749833e-312]:
        bits.append(d2b(x))
    for be in range(1, 255, 5 if quick else 1):              # single-precision values
        for m in (0, 1, 0x7FFFFF, rng.getrandbits(23)):
            f = struct.unpack("<f", struct.pack("<I", (be << 23) | m))[0]
            bits.append(d2b(float(f)))
    for _ in range(300 if quick else 30000):
        b = rng.getrandbits(63)
        if (b >> 52) != 2047:
            bits.append(b)
    # subnormals with every digit count
    for k in range(1, 52, 3 if quick else 1):
        bits += [(1 << k) - 1, 1 << k, rng.getrandbits(k + 1)]
    bits += [b | (1 << 63) for b in bits[:: 7]]            # negatives
    seen, res = set(), []
    for b in bits:
        if b not in seen and ((b >> 52) & 0x7FF) != 2047:
            seen.add(b)
            res.append("%016x" % b)
    return res


def c08_inputs(rng, quick):
    vals = set()
    for k in range(0, 20):
        for d in (-1, 0, 1):
            vals.add(10 ** k + d)
    for k in range(0, 65):
        for d in (-1, 0, 1):
            vals.add(2 ** k + d)
    vals |= {0, 1, 9, 10, 99, 100, 9999, 10000, 99999999, 100000000, 9999999999999999, 10000000000000000,
             19999, 99999, 999999, 250000000, 1690001234, 2 ** 64 - 1, 2 ** 63 - 1, 2 ** 63}
    # every 8-digit group position: values whose 4-digit halves are X000 / 0000 / 9999 patterns
    for hi in (0, 1, 24, 9999, 1000, 2000, 9000, 5):
        for lo in (0, 1, 9999, 1000, 9835, 9836, 19997 % 10000):
            g = hi * 10000 + lo
            for shift in (0, 8, 16):
                for lead in (0, 1, 17, 1844):
                    v = lead * 10 ** (shift + 8) + g * 10 ** shift
                    if v < 2 ** 64:
                        vals.add(v)
    # every leading part of the 17..20-digit path (1..1844 in front of sixteen digits)
    for lead in range(1, 1845, 7 if quick else 1):
        for tail in (0, 10 ** 16 - 1):
            vals.add(lead * 10 ** 16 + tail)
    for nd in range(1, 21):
        for _ in range(20 if quick else 400):
            lo = 10 ** (nd - 1) if nd > 1 else 0
            hi = min(10 ** nd, 2 ** 64)
            vals.add(rng.randrange(lo, hi))
    out = []
    for v in sorted(x for x in vals if 0 <= x < 2 ** 64):
        out.append(str(v))
        if 0 < v <= 2 ** 63:
            out.append("-" + str(v))
    return out


# ---------------------------------------------------------------------------------------------------------------
# Hardest cases per power-of-ten table row, by continued fractions (inputs only).
# A decimal D * 10^e10 lies extremely close to the midpoint (2m+1) * 2^(q-1) of two adjacent doubles iff D / (2m+1) is
# an extremely good rational approximation of alpha = 2^(q-1) / 10^e10.  Convergents and semiconvergents of alpha (and
# their odd multiples) with odd denominator M = 2m+1 in [2^53, 2^54) give such pairs; the distance is of the order of
# 2^-60 ulp, far below what the high 64 bits of a table row can resolve, so the row's low word decides the rounding
# (number parsing, C04) and the interval test of the two adjacent doubles (shortest printing, C07).
def _cf_pairs(num, den, Mlo, Mhi, Dlo, Dhi, per=3):
    out = []
    p0, q0, p1, q1 = 0, 1, 1, 0
    a, b = num, den
    steps = 0
    while b and steps < 400:
        steps += 1
        t = a // b
        a, b = b, a - t * b
        # semiconvergents (p0 + j p1) / (q0 + j q1), j = 1..t  (j = t is the next convergent)
        if q1 > 0:
            jlo = max(1, -((q0 - Mlo) // q1))
            jhi = min(t, (Mhi - 1 - q0) // q1)
            cnt = 0
            for j in ([jlo, jlo + 1, jhi - 1, jhi] if jhi - jlo > 3 else range(jlo, jhi + 1)):
                if j < 1 or j > t or j < jlo or j > jhi:
                    continue
                M, D = q0 + j * q1, p0 + j * p1
                if M % 2 == 1 and Mlo <= M < Mhi and Dlo <= D < Dhi:
                    out.append((D, M))
                    cnt += 1
        p0, q0, p1, q1 = p1, q1, t * p1 + p0, t * q1 + q0
        if q1 >= Mhi:
            break
        # odd multiples of the convergent p1/q1
        if q1 % 2 == 1 and q1 > 1:
            tlo, thi = -(-Mlo // q1), (Mhi - 1) // q1
            ts = [x for x in {tlo | 1, (tlo | 1) + 2, ((tlo + thi) // 2) | 1, (thi - 1) | 1} if tlo <= x <= thi]
            for tt in ts[:per]:
                M, D = tt * q1, tt * p1
                if Dlo <= D < Dhi:
                    out.append((D, M))
    return out


def cf_hard_cases(e10s, digit_ranges=((18, 19), (16, 17), (5, 8)), keep=4):
    """[(D, e10, bits_of_the_double_below_the_midpoint, err_in_ulp)] - the 'keep' closest above and below per row and range."""
    res = []
    for e10 in e10s:
        for ndlo, ndhi in digit_ranges:
            Dlo, Dhi = 10 ** (ndlo - 1), min(10 ** ndhi, 2 ** 64)
            cands = []
            # binades q whose midpoints M * 2^(q-1), M ~ 2^53.5, fall in [Dlo, Dhi) * 10^e10
            import math
            lo2 = math.log2(Dlo) + e10 * math.log2(10) - 54
            hi2 = math.log2(Dhi) + e10 * math.log2(10) - 53
            for q1 in range(int(math.floor(lo2)), int(math.ceil(hi2)) + 1):     # q1 = q - 1
                q = q1 + 1
                be = q + 1075
                if not (1 <= be <= 2046):
                    continue
                num = (1 << q1 if q1 >= 0 else 1) * (10 ** (-e10) if e10 < 0 else 1)
                den = (1 << -q1 if q1 < 0 else 1) * (10 ** e10 if e10 > 0 else 1)
                for D, M in _cf_pairs(num, den, (1 << 53) + 1, 1 << 54, Dlo, Dhi):
                    m = (M - 1) // 2
                    if not ((1 << 52) <= m < (1 << 53)):
                        continue
                    # signed distance D - alpha*M in units of 1/den, and one ulp = 2*alpha = 2*num/den
                    sd = D * den - M * num
                    cands.append((float(Fraction(abs(sd), 2 * num)), 1 if sd > 0 else (-1 if sd < 0 else 0), D, (be << 52) | (m - (1 << 52))))
            for sign in (1, -1, 0):
                sel = sorted(c for c in cands if c[1] == sign)[:keep]
                for err, sg, D, bits in sel:
                    res.append((D, e10, bits, err * sg))
    return res
