"""C20 - UpdateLazy is a faithful recursive object merge."""
import json
from vlib import *
import p_text as T
import p_merge as M


def run(tier):
    ctx = Ctx("C20", tier)
    q = ctx.quick
    builds = ["asan-avx2", "prod-avx2"] if q else ["asan-avx2", "prod-avx2", "asan-sse", "prod-dyn"]
    recs = M.gen_pairs(ctx, 3, 3, 4, "Gen_Schema_33") if q else M.gen_pairs(ctx, 4, 3, 4, "Gen_Schema_43")
    recs += M.gen_pairs(ctx, 3, 3 if not q else 2, 5, "Gen_Schema_esc")       # keys with escaped spellings
    recs += M.gen_pairs(ctx, 3, 2, 4, "Gen_Schema_32_ws", laye=2, layv=3)       # blanks around ':' and ',', 65-blank runs
    recs += M.gen_pairs(ctx, 3, 2, 4, "Gen_Schema_32_ws2", laye=3, layv=2)
    recs += M.gen_pairs(ctx, 2, 2, 4, "Gen_Schema_widearr", smode="widearr")      # top-level arrays of 15..70 elements
    recs += M.gen_pairs(ctx, 2, 2, 4, "Gen_Schema_wide3", smode="wide3", laye=0 if q else 1)
    recs += M.gen_pairs(ctx, 2, 2, 4, "Gen_Schema_nest2", smode="nest2")
    # names of every length with an escape at every block offset, matched against another spelling of the same name
    recs += M.gen_pairs(ctx, 2, 2, 4, "Gen_Schema_esckeys", smode="esckeys")
    # beyond the exhaustive bound: random growth + random edits (TLC simulation)
    recs += M.gen_rand(ctx, 6 if q else 60, 8, 3, schema_model=False) + M.gen_rand(ctx, 3 if q else 30, 12, 5, layv=0 if q else 2, schema_model=False)
    rows = [[str(i), hexs(r["e"]), hexs(r["v"]), T.canon(r["lazy"])] for i, r in enumerate(recs)]
    fails = M.run_merge(ctx, "lazy", rows, builds, None, "")
    for b, idx, kind, detail in fails:
        row = rows[idx]
        t, s = bytes.fromhex(row[1]), bytes.fromhex(row[2])
        bk = "crash" if kind.startswith("crash") else kind.split(":")[-1]
        esc = b"\\" in t or b"\\" in s
        ctx.add_fail(dict(property="C20", kind=bk, sig=(kind if bk == "crash" else bk), build=b, detail=detail,
                          shape=dict(kind=bk, escaped_key=esc),
                          case=dict(target=t.decode("latin1"), source=s.decode("latin1"), expected=row[3]),
                          replay=dict(harness="rt_merge.cpp", mode="lazy", row=row)))
    ctx.traces += len(rows) * len(builds)
    ctx.samples += [dict(target=bytes.fromhex(r[1]).decode("latin1"), source=bytes.fromhex(r[2]).decode("latin1"), expected=r[3]) for r in rows[200:203]]
    ctx.extra.update(pairs=len(rows), builds=builds)
    ctx.assumptions += ["R-model Gen_Schema!LazyMerge (from the property text), keys matched by decoded value; duplicate-free values only"]
    ctx.finish(rule="TLC enumerates every pair of duplicate-free values up to a node bound, incl. keys spelled with escapes, with LazyMerge; "
                    "UpdateLazy(target, source) on exact-size buffers under ASan; the result must parse to the expected value; "
                    "non-trivial = distinct pair", nontrivial=len(rows))


def replay(path):
    rec = json.load(open(path))
    ctx = Ctx("C20-replay", "quick")
    fails = M.run_merge(ctx, "lazy", [rec["replay"]["row"]], ["asan-avx2", "prod-avx2"], None, "")
    for f in fails:
        print(f)
    ctx.cleanup()
    return 1 if fails else 0
