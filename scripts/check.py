#!/usr/bin/env python3
"""/verif/run.sh <ID> quick|thorough  ->  python3 scripts/check.py <ID> <tier>"""
import sys, os, importlib
sys.path.insert(0, os.path.dirname(os.path.abspath(__file__)))

MODS = {
    "C01": "c01", "C02": "c02", "C03": "c03", "C04": "c04", "C05": "c05", "C06": "c06",
    "C07": "c07", "C08": "c08", "C09": "c09", "C10": "c10", "C11": "c11", "C12": "c12",
    "C13": "c13", "C14": "c14", "C15": "c15", "C16": "c16", "C17": "c17", "C18": "c18",
    "C19": "c19", "C20": "c20",
}


def main():
    if len(sys.argv) < 3:
        print("usage: check.py <ID> quick|thorough | <ID> --replay <path>")
        sys.exit(2)
    prop = sys.argv[1]
    m = importlib.import_module(MODS[prop])
    if sys.argv[2] == "--replay":
        sys.exit(m.replay(sys.argv[3]))
    m.run(sys.argv[2])


if __name__ == "__main__":
    main()
