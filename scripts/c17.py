"""C17 - Independent documents and shared read-only documents are free of data races; locked pool is safe."""
import os, json, subprocess
from vlib import *


def mt_build(ctx, tag, cxx, flags):
    out = os.path.join(ctx.work, "rt_mt." + tag)
    cmd = [cxx, "-std=c++17", "-w", f"-I{REPO}/include", f"-I{HARN}"] + flags + ["-mavx2", "-mpclmul", "-mbmi", "-mlzcnt",
           os.path.join(HARN, "rt_mt.cpp"), "-o", out, "-pthread"]
    p = subprocess.run(cmd, capture_output=True, text=True)
    if p.returncode != 0:
        print(p.stderr[-3000:])
        ctx.abort(f"rt_mt.cpp does not compile ({tag})")
    return out


def run_mt(ctx, binary, args, what, build, owned=True):
    e = dict(os.environ)
    e["TSAN_OPTIONS"] = "exitcode=96:halt_on_error=0:second_deadlock_stack=1"
    try:
        p = subprocess.run([binary] + [str(a) for a in args], capture_output=True, text=True, timeout=600, env=e)
        rc, so, se = p.returncode, p.stdout, p.stderr
    except subprocess.TimeoutExpired as ex:
        rc, so, se = -999, "", "timeout"
    fails = []
    for line in so.splitlines():
        if line.startswith("F\t"):
            a = line.split("\t", 3)
            fails.append((a[2], a[3] if len(a) > 3 else ""))
        elif line.startswith("N\t"):
            ctx.evals += int(line.split("\t")[1])
    races = []
    if "ThreadSanitizer" in se:
        import re
        for m in re.finditer(r"SUMMARY: ThreadSanitizer: ([^\n]*)", se):
            races.append(m.group(1)[:300])
    if rc not in (0, 1, 96) and not races and not fails:
        fails.append(("crash", f"exit code {rc}: {se[-300:]}"))
    return fails, sorted(set(races)), se


def run(tier):
    ctx = Ctx("C17", tier)
    q = ctx.quick
    # (1) design: SpinLock + pool critical sections, every interleaving
    for tag, thr, prog, locked in (("locked-2x3", "T2", "P2", True), ("locked-3x2", "T3", "P3", True), ("unlocked-2x3", "T2", "P2", False)):
        cfg = f"CONSTANTS\n  Threads <- {thr}\n  Prog <- {prog}\n  Locked = {'TRUE' if locked else 'FALSE'}\n  ChunkCap = 32\nSPECIFICATION FairSpec\nINVARIANT SafetyInv\n" + \
              ("PROPERTY Termination\n" if locked else "") + "CHECK_DEADLOCK FALSE\n"
        r = ctx.tlc("MC_PoolMT", cfg=cfg, tag="MC_PoolMT_" + tag, timeout=900, xmx="8g", workers=8)
        viol = "is violated" in r["out"]
        ctx.log(f"MC_PoolMT[{tag}]: {r['distinct']} distinct states; SafetyInv (mutual exclusion, disjoint blocks, inside chunk)"
                f"{' + Termination' if locked else ''}: {'VIOLATED' if viol else 'holds'}")
        if locked and (viol or r["exit"] != 0):
            ctx.add_fail(dict(property="C17", kind="model", sig="model:" + tag, shape=dict(kind="model"), build="tlc",
                              detail="PoolMT with the lock violates its invariants: " + r["out"][-1500:], case=dict(config=tag), replay=dict(harness="MC_PoolMT")))
        if not locked:
            ctx.extra["unlocked_model_finds_overlap"] = viol     # documents why the option is required
    # (2) locked pool: lock-ordered event traces validated by TLC against the sequential pool specification
    plk = mt_build(ctx, "prodlk-hook", "g++", ["-O2", "-DNDEBUG", "-DSONIC_LOCKED_ALLOCATOR", "-DSONIC_VERIF_HOOKS"])
    tlk = mt_build(ctx, "tsanlk-hook", "clang++", ["-O1", "-g", "-fsanitize=thread", "-DSONIC_LOCKED_ALLOCATOR", "-DSONIC_VERIF_HOOKS"])
    tsn = mt_build(ctx, "tsan", "clang++", ["-O1", "-g", "-fsanitize=thread"])
    runs = 10 if q else 60
    traces = []
    for k in range(runs):
        ev = os.path.join(ctx.work, f"pool_ev_{k}.ndjson")
        nt, ops = (2 + k % 7, 40 if q else 120)
        fails, races, se = run_mt(ctx, plk, ["pool", nt, ops, ctx.seed + k, ev], "pool", "prodlk-hook")
        for kind, detail in fails:
            ctx.add_fail(dict(property="C17", kind=kind, sig=kind, shape=dict(kind=kind), build="prodlk-hook", detail=detail,
                              case=dict(mode="pool", threads=nt, ops=ops, seed=ctx.seed + k), replay=dict(harness="rt_mt.cpp", args=["pool", nt, ops, ctx.seed + k])))
        if os.path.exists(ev):
            traces.append(ev)
    tcfg = "CONSTANTS\n  ChunkCap = 64\n  Adaptive = FALSE\n  MaxChunkCap = 256\n  UserBuf = 0\n  Sizes = {}\n  MaxBlocks = 0\n  MaxHandles = 1\n  MaxSteps = 0\n" \
           "INIT TInit\nNEXT TNext\nINVARIANT Inv\nPOSTCONDITION Accepted\nCHECK_DEADLOCK FALSE\n"

    def validate(path):
        total = sum(1 for _ in open(path))
        r = ctx.tlc("Trace_Pool", cfg=tcfg, env=dict(TRACE=path), workers=1, timeout=1200, xmx="4g", tag="Trace_Pool_" + os.path.basename(path)[:30])
        ok = r["exit"] == 0 and "Postcondition Accepted" not in r["out"] and "is violated" not in r["out"]
        return path, r["distinct"] - 1, total, ok

    nev = 0
    for path, matched, total, ok in parallel(validate, traces, workers=8):
        ctx.traces += 1
        nev += matched
        if not ok:
            ev = open(path).read().splitlines()[matched] if matched < total else ""
            ctx.add_fail(dict(property="C17", kind="pool-trace", sig="pool-trace", shape=dict(kind="pool-trace"), build="prodlk-hook",
                              detail=f"Trace_Pool rejects event {matched + 1} of {total} of a lock-ordered trace from concurrent threads: {ev}",
                              case=dict(event=ev), replay=dict(harness="Trace_Pool", trace=os.path.basename(path))))
    ctx.log(f"locked pool: {len(traces)} multi-threaded executions, {nev} lock-ordered events accepted by Trace_Pool")
    # (3) ThreadSanitizer on the three clauses
    # corpus for the thread-private clause: what the single-threaded checks feed the library, so that every path they reach
    # (slow number paths, escapes, deep nesting, error paths, on-demand, merges) also runs concurrently on private documents
    import p_text as T, p_numgen as G
    crecs = T.gen_simple(ctx, "Gen_Tokens", dict(MaxTok=2 if q else 3, Junk="TRUE"), tag="Gen_Tokens_mt")
    texts = [bytes(r["t"]) for r in crecs][:: (3 if q else 2)]
    texts += [s.encode() for s in G.c04_inputs(ctx.rng, True)[:: (9 if q else 3)]]
    texts += [b'{"a":' + s.encode() + b',"b":[' + s.encode() + b']}' for s in G.c04_inputs(ctx.rng, True)[4:: (37 if q else 11)]]
    texts += [b'{"a":{"a":"x\\n\\u00e9","b":[1,2,{"c":null}]},"k":"' + b'y' * n + b'"}' for n in (0, 15, 16, 31, 32, 33, 64, 100)]
    cpath = os.path.join(ctx.work, "mt_corpus.hex")
    with open(cpath, "w") as f:
        for t in texts:
            f.write((t.hex() or "-") + "\n")
    ctx.log(f"thread-private clause: corpus of {len(texts)} texts (token sequences, hard number spellings, nested documents)")
    progs = []
    for k in range(2 if q else 6):
        progs.append((tsn, ["corpus", 3 + k % 3, 1, ctx.seed + k, cpath], "thread-private documents (single-threaded corpora run concurrently)"))
    for k in range(3 if q else 12):
        progs.append((tlk, ["pool", 4 + k % 3, 300, ctx.seed + 100 + k, "/dev/null"], "shared locked pool"))
        progs.append((tsn, ["readers", 4 + k % 5, 3000, ctx.seed + k, 0], "shared read-only document"))
        progs.append((tsn, ["readers", 4 + k % 5, 3000, ctx.seed + k, 1], "shared read-only document incl. operator[] on missing keys"))
        progs.append((tsn, ["owners", 4 + k % 5, 60, ctx.seed + k], "thread-private documents"))
    for binary, args, what in progs:
        fails, races, se = run_mt(ctx, binary, args, what, "tsan")
        ctx.traces += 1
        for kind, detail in fails:
            ctx.add_fail(dict(property="C17", kind=kind, sig=kind, shape=dict(kind=kind), build="tsan", detail=detail, case=dict(args=args, what=what),
                              replay=dict(harness="rt_mt.cpp", args=args)))
        for rc in races:
            site = "static-null-node" if ("findValueImpl" in se or "setNullImpl" in se or "SetNull" in se) and args[0] == "readers" and args[-1] == 1 else "other"
            ctx.add_fail(dict(property="C17", kind="race", sig="race:" + rc[:80], shape=dict(kind="race", site=site, clause=what), build="tsan",
                              detail=f"ThreadSanitizer ({what}): {rc}", case=dict(args=args, what=what), replay=dict(harness="rt_mt.cpp", args=args, build="tsan")))
    ctx.log(f"ThreadSanitizer: {len(progs)} thread programs executed; failures so far {len(ctx.fail)}")
    ctx.samples += [dict(program=a, clause=w) for _, a, w in progs[:4]]
    ctx.extra.update(pool_runs=runs, tsan_programs=len(progs))
    ctx.assumptions += ["for the non-allocator clauses the decision on the implementation is ThreadSanitizer's happens-before analysis of the executed "
                        "accesses; TLA+ supplies the lock proof (PoolMT), the sequential pool specification the lock-ordered traces are checked "
                        "against (Trace_Pool), and the vocabulary of the thread programs",
                        "'one shared pool' is exercised as one allocator object used by all threads; copies of an allocator each carry their own "
                        "SpinLock member and are not claimed to exclude each other"]
    ctx.finish(rule="TLC: every interleaving of 2x3 and 3x2 calls through the SpinLock / Malloc / in-place Realloc steps (safety + termination; the "
                    "unlocked variant is shown to overlap); implementation: concurrent Malloc/Realloc on one locked pool with hook H2 event "
                    "traces validated by Trace_Pool and blocks checked after join; TSan over thread programs for the three clauses; "
                    "non-trivial = distinct execution", nontrivial=runs + len(progs))


def replay(path):
    rec = json.load(open(path))
    print("re-run:", rec["replay"])
    return 1
