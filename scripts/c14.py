"""C14 - Member lookup compares keys by exact bytes for every length and address."""
import os, json
from vlib import *
import p_text as T


def run(tier):
    ctx = Ctx("C14", tier)
    q = ctx.quick
    builds = ["prod-avx2", "asan-avx2", "prod-sse", "prod-dyn"] if q else ["prod-avx2", "asan-avx2", "prod-sse", "asan-sse", "prod-dyn", "asan-dyn"]
    SS = list(range(0, 71)) + [95, 96, 97, 127, 128, 129, 130] if q else list(range(0, 135))
    recs = ctx.tlc_emit("Gen_MemCmp", cfg=f'CONSTANTS Mode = "cmp" SS = {T.fmtset(SS)}\nINIT Init\nNEXT Next\nINVARIANT Emit\nCHECK_DEADLOCK FALSE\n',
                        tag="Gen_MemCmp_cmp", timeout=1500, xmx="8g")
    rows = [[str(i), hexs(r["a"]), hexs(r["b"]), "1" if r["eq"] else "0", str(r["sign"])] for i, r in enumerate(recs)]
    krecs = ctx.tlc_emit("Gen_MemCmp", cfg=f'CONSTANTS Mode = "keys" SS = {T.fmtset([1, 2, 5, 16, 31, 32, 33, 40, 64, 65, 78, 100])}\nINIT Init\nNEXT Next\nINVARIANT Emit\nINVARIANT LessIsStrictOrder\nCHECK_DEADLOCK FALSE\n',
                         tag="Gen_MemCmp_keys", timeout=1500, xmx="8g")
    krows = []
    for i, r in enumerate(krecs):
        row = [str(i), str(len(r["keys"]))] + [hexs(k) for k in r["keys"]] + [str(len(r["probes"]))] + [hexs(k) for k in r["probes"]]
        row += ["1" if x else "0" for x in r["probefound"]]
        for line in r["less"]:
            row += ["1" if x else "0" for x in line]
        krows.append(row)
    ctx.log(f"Gen_MemCmp: {len(rows)} range pairs (equal / one or two differences around 0x80, lengths {SS[0]}..{SS[-1]}), {len(krows)} key sets")
    bins = ctx.build("rt_memcmp.cpp", builds)
    jobs = []
    for mode, rws in (("cmp", rows), ("keys", krows)):
        nsh = 4 if mode == "cmp" else 1
        per = (len(rws) + nsh - 1) // nsh
        for s in range(nsh):
            p = os.path.join(ctx.work, f"mc_{mode}_{s}.tsv")
            T.write_rows(p, rws[s * per:(s + 1) * per])
            for b in builds:
                jobs.append((b, mode, p, s * per, rws))

    def one(job):
        b, mode, p, base, rws = job
        f, other, n = run_cases(ctx, bins[b], [mode], p, b, timeout=1500)
        return b, mode, base, f, n, rws

    for b, mode, base, f, n, rws in parallel(one, jobs):
        ctx.evals += n
        for idx, kind, detail in f:
            bk = "crash" if kind.startswith("crash") else kind
            row = rws[min(base + idx, len(rws) - 1)]
            ctx.add_fail(dict(property="C14", kind=bk, sig=(kind if bk == "crash" else bk), shape=dict(kind=bk), build=b, detail=detail,
                              case=dict(mode=mode, row=row[:6]), replay=dict(harness="rt_memcmp.cpp", mode=mode, row=row)))
    ctx.traces += (len(rows) + len(krows)) * len(builds)
    ctx.samples += [dict(a=recs[5]["a"], b=recs[5]["b"], eq=recs[5]["eq"], sign=recs[5]["sign"]), dict(keys=krecs[0]["keys"][:3])]
    ctx.extra.update(pairs=len(rows), keysets=len(krows), builds=builds, end_gaps=[0, 1, 2, 15, 16, 30, 31, 32, 33, 63, 64, 100, 2100])
    ctx.assumptions += ["R-model: Gen_MemCmp!MemEq / MemSign / KeyLess on byte sequences; LessIsStrictOrder model-checked for every key set",
                        "page-end behaviour observed by PROT_NONE guard pages in production builds (the in-page fast path is compiled out under ASan)"]
    ctx.finish(rule="TLC generates range pairs of every length (equal, one difference at boundary/middle positions with values on both sides of 0x80, "
                    "two differences of opposite sign) and key sets; replayed against InlinedMemcmpEq, InlinedMemcmp, FindMember (both overloads), "
                    "HasMember and lookup after CreateMap for 13 x 13 pairs of distances to an unmapped page; non-trivial = distinct pair / key set",
               nontrivial=len(rows) + len(krows))


def replay(path):
    rec = json.load(open(path))
    ctx = Ctx("C14-replay", "quick")
    rp = rec["replay"]
    p = os.path.join(ctx.work, "r.tsv")
    T.write_rows(p, [rp["row"]])
    bins = ctx.build("rt_memcmp.cpp", ["prod-avx2", "asan-avx2", "prod-sse", "prod-dyn"])
    bad = 0
    for b, path_ in bins.items():
        f, other, n = run_cases(ctx, path_, [rp["mode"]], p, b)
        for x in f:
            print(b, x)
            bad += 1
    ctx.cleanup()
    return 1 if bad else 0
