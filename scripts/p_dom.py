"""DOM state machine (spec/Dom.tla): model checking, behaviour generation by TLC simulation,
replay on the real DNode API (pool allocator and a tracking freeing allocator), ledger trace
validation (Trace_Ownership).  Serves C12, C13, C18."""
import os, json, struct
from vlib import *

OWN = {
    "C01": {"parse-verdict", "crash"},
    "C03": {"parse-state", "parse-verdict", "crash"},
    "C06": {"dump", "crash"},
    "C12": {"state", "accessor", "retval", "lookup", "capacity", "dump", "copy", "crash"},
    "C13": {"leak", "ledger", "crash", "copy", "ledger-trace", "use-after-free", "corrupt", "leak-schema-buffer", "model"},
    "C18": {"equality", "crash"},
}


def dtok(v):
    k = v["k"]
    if k == "null": return "n"
    if k == "true": return "t"
    if k == "false": return "f"
    if k == "uint": return "u:%d" % v["n"]
    if k == "sint": return "i:%d" % v["n"]
    if k == "real": return "d:%016x" % struct.unpack("<Q", struct.pack("<d", -0.0 if v["n"] == -1000001 else v["n"] / 2.0))[0]
    if k == "str": return "s:" + hexs(v["b"])
    if k == "arr": return " ".join(["["] + [dtok(x) for x in v["e"]] + ["]"])
    if k == "obj":
        out = ["{"]
        for key, val in v["m"]:
            out += ["k:" + hexs(key), dtok(val)]
        return " ".join(out + ["}"])
    raise ValueError(k)


def itok(v):   # I-node scalar from the action record
    t = v["t"]
    return {"null": "n", "true": "t", "false": "f"}.get(t) or \
        ("u:%d" % v["n"] if t == "uint" else "i:%d" % v["n"] if t == "sint" else
         "d:%016x" % struct.unpack("<Q", struct.pack("<d", -0.0 if v["n"] == -1000001 else v["n"] / 2.0))[0])


def step_row(bid, i, st):
    a = st["a"]
    op = a["op"]
    a1 = a2 = a3 = "-"
    if op == "set": a1 = itok(a["v"])
    elif op == "setstr": a1, a2 = hexs(a["b"]), "1" if a["copy"] else "0"
    elif op in ("erase", "erasemember"): a1, a2 = str(a["i"]), str(a["j"])
    elif op in ("reserve", "memberreserve"): a1 = str(a["n"])
    elif op == "addmember": a1, a2 = hexs(a["key"]), "1" if a["copy"] else "0"
    elif op == "removemember": a1 = hexs(a["key"])
    elif op == "parse": a1 = hexs(a["b"])
    elif op == "dump": a3 = hexs(a["b"])
    ret = "1" if a.get("ret", True) else "0"
    return [str(bid), str(i), op, str(a.get("c", 0)), a1, a2, a3, dtok(st["r"]), dtok(st["x"]), ret,
            str(st["nl"]), str(st["rc"]), "1" if st["rm"] else "0", "1" if st["eqdef"] else "0",
            "1" if st["eq"] else "0", hexs(st["d"]) if "d" in st else "-"]


def mc(ctx, max_nodes, max_size=2, timeout=3000):
    cfg = f"""CONSTANTS
  KeyPool <- MCKeys
  Scalars <- MCScalars
  StrBytes <- MCStr
  MaxSize = {max_size}
  MaxNodes = {max_nodes}
SPECIFICATION Spec
INVARIANT Inv
CONSTRAINT Constraint
VIEW View
CHECK_DEADLOCK FALSE
"""
    r = ctx.tlc("MC_Dom", cfg=cfg, tag=f"MC_Dom_n{max_nodes}", timeout=timeout, xmx="16g", extra=["-coverage", "1"])
    viol = "is violated" in r["out"] or "Error:" in r["out"]
    acts = {}
    import re
    for m in re.finditer(r"<(\w+) line \d+, col \d+ to line \d+, col \d+ of module Dom>: (\d+):(\d+)", r["out"]):
        acts[m.group(1)] = [int(m.group(2)), int(m.group(3))]
    ctx.extra["mc_dom_action_coverage"] = acts
    ctx.log(f"MC_Dom (MaxNodes={max_nodes}, MaxSize={max_size}): {r['distinct']} distinct states, {r['generated']} generated, "
            f"exit {r['exit']}, invariants Refines/MapOk/CapOk/LookupOk/LedgerOk/EqOk {'VIOLATED' if viol else 'hold'}; "
            f"{len(acts)} actions taken")
    never = [a for a, c in acts.items() if c[1] == 0]
    if never:
        ctx.log("WARNING vacuity: actions never taken in MC_Dom:", never)
    return r, viol


def gen_behaviours(ctx, num, depth, workers=8):
    cfg = f"""CONSTANTS
  KeyPool <- SimKeys
  Scalars <- SimScalars
  StrBytes <- SimStr
  MaxSize = 40
  MaxNodes = 80
  Depth = {depth}
INIT GInit
NEXT GNext
INVARIANT EmitBeh
INVARIANT Inv
CHECK_DEADLOCK FALSE
"""
    # one single-worker TLC per seed: long behaviours give lines above the 8 KiB chunks in which the workers of one TLC
    # process append to the output file (torn lines)
    per = num
    parts = parallel(lambda k: ctx.tlc_emit("Gen_Dom", cfg=cfg, simulate=per, depth=depth + 1, workers=1, timeout=3000, xmx="3g",
                                            tag=f"Gen_Dom_w{k}", seed=ctx.seed * 100 + k), list(range(workers)), workers=workers)
    recs = [r for part in parts for r in part]
    ctx.log(f"Gen_Dom: {len(recs)} behaviours of {depth} steps from TLC simulation ({workers} x {per} walks)")
    return recs


def mc_sonic(ctx, max_nodes, timeout=1500):
    """spec/Sonic.tla (Dom + Parse + Dump): all invariants of Dom plus SLedgerOk / ParseOk / RoundTrip, exhaustively for the small pools."""
    cfg = f"""CONSTANTS
  KeyPool <- MCKeys
  Scalars <- MCScalars
  StrBytes <- MCStr
  Texts <- MCTexts
  MaxSize = 2
  MaxNodes = {max_nodes}
INIT SInit
NEXT SNext
INVARIANT SInv
CONSTRAINT Constraint
VIEW SView
CHECK_DEADLOCK FALSE
"""
    # no -coverage here: TLC's coverage instrumentation does not terminate on this module (INSTANCE + RECURSIVE)
    r = ctx.tlc("MC_Sonic", cfg=cfg, tag=f"MC_Sonic_n{max_nodes}", timeout=timeout, xmx="16g")
    viol = "is violated" in r["out"] or "Error:" in r["out"] or r["exit"] != 0
    ctx.log(f"MC_Sonic (life cycle, MaxNodes={max_nodes}): {r['distinct']} distinct states, {r['generated']} generated, exit {r['exit']}, "
            f"Dom invariants + SLedgerOk/ParseOk/RoundTrip {'VIOLATED' if viol else 'hold'}")
    return r, viol


def gen_lifecycle(ctx, num, depth, workers=8):
    cfg = f"""CONSTANTS
  KeyPool <- SimKeys
  Scalars <- SimScalars
  StrBytes <- SimStr
  Texts <- SimTexts
  MaxSize = 40
  MaxNodes = 80
  Depth = {depth}
INIT GInit
NEXT GNext
INVARIANT EmitBeh
INVARIANT SInv
CHECK_DEADLOCK FALSE
"""
    # one single-worker TLC per seed: the lines are longer than the 8 KiB chunks in which concurrent workers of one
    # TLC process append to the output file, so several workers in one process would tear them
    parts = parallel(lambda k: ctx.tlc_emit("Gen_Sonic", cfg=cfg, simulate=num, depth=depth + 1, workers=1, timeout=3000, xmx="3g",
                                            tag=f"Gen_Sonic_w{k}", seed=ctx.seed * 100 + k), list(range(workers)), workers=workers)
    recs = [r for part in parts for r in part]
    nparse = sum(1 for r in recs for s in r["steps"] if s["a"]["op"] == "parse")
    ndump = sum(1 for r in recs for s in r["steps"] if s["a"]["op"] == "dump")
    ctx.log(f"Gen_Sonic: {len(recs)} life-cycle behaviours of {depth} steps from TLC simulation ({ctx.tlc_runs[-1]['wall']}s), "
            f"{nparse} parse steps, {ndump} dump steps")
    ctx.extra["lifecycle"] = dict(behaviours=len(recs), parse_steps=nparse, dump_steps=ndump)
    return recs


def lifecycle(ctx, prop, builds, num, depth, mcn=3):
    """Model-check Sonic.tla, generate life-cycle behaviours, replay them; failures of the kinds 'prop' owns are recorded."""
    r, viol = mc_sonic(ctx, mcn)
    if viol:
        ctx.add_fail(dict(property=prop, kind="model", sig="model:Sonic", shape=dict(kind="model"), build="tlc",
                          detail="an invariant of spec/Sonic.tla is violated in MC_Sonic: " + r["out"][-1500:], case={}, replay=dict(harness="MC_Sonic")))
    recs = gen_lifecycle(ctx, num, depth)
    rows = rows_of(recs)
    fails, ledgers, drift = replay(ctx, rows, builds, name="life")
    record(ctx, rows, fails, OWN[prop])
    ctx.traces += len(recs) * len(builds) * 2
    ctx.log(f"life cycle: replayed {len(recs)} behaviours ({len(rows)} steps) x {len(builds)} builds x 2 allocators; failures so far {len(ctx.fail)}; "
            f"drift (model prediction vs code, not a verdict): {drift}")
    ctx.extra.setdefault("lifecycle", {}).update(steps=len(rows), drift=drift)
    return ledgers


def gen_focus(ctx, suffix):
    """Gen_Dom!FNext under BFS: every sequence of 'suffix' object / lookup-map operations after the scripted prefix."""
    depth = 7 + suffix
    cfg = f"""CONSTANTS
  KeyPool <- SimKeys
  Scalars <- SimScalars
  StrBytes <- SimStr
  MaxSize = 40
  MaxNodes = 80
  Depth = {depth}
INIT GInit
NEXT FNext
INVARIANT EmitBeh
CHECK_DEADLOCK FALSE
"""
    # several workers append to one file: lines of these short behaviours stay below the 8 KiB chunk size
    recs = ctx.tlc_emit("Gen_Dom", cfg=cfg, tag="Gen_Dom_focus", workers=8, timeout=3000, xmx="12g")
    ctx.log(f"Gen_Dom (object / lookup-map subsystem, exhaustive): {len(recs)} behaviours = scripted prefix + every sequence of {suffix} operations ({ctx.tlc_runs[-1]['wall']}s)")
    return recs


def rows_of(recs):
    rows = []
    for bid, r in enumerate(recs):
        for i, st in enumerate(r["steps"]):
            rows.append(step_row(bid, i, st))
    return rows


def replay(ctx, rows, builds, allocs=("pool", "track"), name="dom", want_ledger=True):
    bins = ctx.build("rt_dom.cpp", builds)
    # shard at behaviour boundaries
    nsh = max(1, min(8, len(rows) // 4000))
    bounds = [0]
    per = len(rows) // nsh
    for s in range(1, nsh):
        j = s * per
        while j < len(rows) and rows[j][1] != "0":
            j += 1
        bounds.append(j)
    bounds.append(len(rows))
    jobs = []
    for s in range(nsh):
        part = rows[bounds[s]:bounds[s + 1]]
        if not part:
            continue
        p = os.path.join(ctx.work, f"{name}_{s}.tsv")
        with open(p, "w") as f:
            for r in part:
                f.write("\t".join(r) + "\n")
        for b in builds:
            for al in allocs:
                jobs.append((b, al, s, p, bounds[s]))

    def one(job):
        b, al, s, p, base = job
        led = os.path.join(ctx.work, f"{name}_ledger_{b}_{al}_{s}.ndjson") if (want_ledger and al == "track" and b == builds[0]) else "-"
        f, other, n = run_cases(ctx, bins[b], [al, led], p, b, timeout=3000)
        return b, al, base, f, other, n, led

    fails, ledgers, drift = [], [], {}
    for b, al, base, f, other, n, led in parallel(one, jobs):
        ctx.evals += n
        for idx, kind, detail in f:
            fails.append((b, al, base + idx, kind, detail))
        for line in other:
            if line.startswith("DRIFT"):
                a = line.split("\t")
                drift["cap"] = drift.get("cap", 0) + int(a[2])
                drift["ledger"] = drift.get("ledger", 0) + int(a[4])
                if len(a) > 6:
                    drift["dump"] = drift.get("dump", 0) + int(a[6])
        if led != "-" and os.path.exists(led):
            ledgers.append(led)
    return fails, ledgers, drift


def validate_ledgers(ctx, ledgers):
    """Trace_Ownership over the recorded alloc/free/reset events. Returns list of (file, matched, total)."""
    bad = []

    def one(path):
        total = sum(1 for _ in open(path))
        if total == 0:
            return path, 0, 0, True
        r = ctx.tlc("Trace_Ownership", env=dict(TRACE=path), workers=1, timeout=1500, xmx="3g",
                    tag="Trace_Ownership_" + os.path.basename(path)[:40])
        ok = "Postcondition Accepted" not in r["out"] and r["exit"] == 0
        return path, r["distinct"] - 1, total, ok

    for path, matched, total, ok in parallel(one, ledgers, workers=8):
        ctx.traces += 1
        ctx.extra["ledger_events_validated"] = ctx.extra.get("ledger_events_validated", 0) + matched
        if not ok:
            bad.append((path, matched, total))
    return bad


def describe_row(rows, idx):
    """The behaviour prefix that leads to the failing step (replayable)."""
    bid = rows[idx][0]
    j = idx
    while j > 0 and rows[j - 1][0] == bid:
        j -= 1
    return dict(behaviour=[dict(op=r[2], c=int(r[3]), args=[x for x in r[4:7] if x != "-"]) for r in rows[j:idx + 1]],
                expected_root=rows[idx][7], expected_aux=rows[idx][8]), rows[j:idx + 1]


def record(ctx, rows, fails, own):
    other = {}
    for b, al, idx, kind, detail in fails:
        base = "crash" if kind.startswith("crash") else kind
        if base not in own:
            other[base] = other.get(base, 0) + 1
            continue
        d, prefix = describe_row(rows, min(idx, len(rows) - 1))
        ctx.add_fail(dict(property=ctx.prop, kind=base, build=b, allocator=al, detail=detail, case=d,
                          sig=(kind if base == "crash" else f"{base}:{rows[min(idx, len(rows)-1)][2]}"),
                          shape=dict(kind=base, op=rows[min(idx, len(rows) - 1)][2]),
                          replay=dict(harness="rt_dom.cpp", alloc=al, rows=prefix)))
    if other:
        ctx.extra.setdefault("failures_owned_by_other_properties", {}).update(other)
        ctx.log("note: failure kinds owned by other properties:", other)


def document_histories(ctx, builds):
    """spec/Document.tla: ownership of str_ / schema_str_ / the tree across Parse, ParseSchema (valid and invalid
    input), move, swap, mutation and destruction of two documents."""
    q = ctx.quick
    base = "CONSTANTS Docs = {1, 2} TreeSizes = {0, 2} SchemaChain = %s FixSchemaLeak = %s SlotStringsOwned = %s\nSPECIFICATION Spec\nCONSTRAINT Bound\n%sCHECK_DEADLOCK FALSE\n"
    # the code's design (since repair of the schema-buffer leak): every ParseSchema text buffer is chained and kept until the document dies
    r = ctx.tlc("Document", cfg=base % ("TRUE", "FALSE", "TRUE", "INVARIANT Exact\nINVARIANT NoDangling\nINVARIANT NoLeak\n"), tag="MC_Document", timeout=600, workers=4)
    if "is violated" in r["out"] or r["exit"] != 0:
        ctx.add_fail(dict(property="C13", kind="model", sig="model:Document", shape=dict(kind="model"), build="tlc",
                          detail="Document.tla: Exact / NoDangling / NoLeak violated: " + r["out"][-1200:], case={}, replay=dict(harness="MC_Document")))
    # the three designs that were considered and rejected, kept as parameters of the model
    r2 = ctx.tlc("Document", cfg=base % ("FALSE", "FALSE", "TRUE", "INVARIANT NoLeak\n"), tag="MC_Document_overwrite", timeout=600, workers=4)
    r3 = ctx.tlc("Document", cfg=base % ("FALSE", "TRUE", "TRUE", "INVARIANT NoDangling\n"), tag="MC_Document_freeold", timeout=600, workers=4)
    r4 = ctx.tlc("Document", cfg=base % ("TRUE", "FALSE", "FALSE", "INVARIANT NoDangling\n"), tag="MC_Document_slotconst", timeout=600, workers=4)
    v2, v3, v4 = ["is violated" in x["out"] for x in (r2, r3, r4)]
    ctx.log(f"MC_Document: {r['distinct']} states, Exact / NoDangling / NoLeak hold for the code's design (schema text buffers chained until the document dies); "
            f"rejected designs: overwrite the pointer (the code before its repair) -> NoLeak {'violated' if v2 else 'holds?'}; free the old buffer -> NoDangling {'violated' if v3 else 'holds?'}; "
            f"slot strings as borrowed views -> NoDangling {'violated' if v4 else 'holds?'}")
    ctx.extra["document_model_rejected_designs_violate"] = dict(overwrite_leaks=v2, free_old_dangles=v3, slot_views_dangle=v4)
    depth = 12 if q else 25
    cfg = f"CONSTANTS Docs = {{1, 2}} TreeSizes = {{0, 2}} SchemaChain = TRUE FixSchemaLeak = FALSE SlotStringsOwned = TRUE Depth = {depth}\nINIT GInit\nNEXT GNext\nINVARIANT EmitBeh\nCHECK_DEADLOCK FALSE\n"
    recs = ctx.tlc_emit("Gen_Document", cfg=cfg, simulate=40 if q else 60, depth=depth + 1, workers=8, timeout=1200, xmx="6g")
    rows = []
    for bid, r_ in enumerate(recs):
        for i, st in enumerate(r_["steps"]):
            a = st["a"]
            rows.append([str(bid), str(i), a["op"], str(a.get("d", a.get("a", 0))), str(a.get("b", 0)), "1" if a.get("ok") else "0",
                         str(a.get("k", 0)), str(st["nl"]), str(st["orph"])])
    p = os.path.join(ctx.work, "doc_steps.tsv")
    with open(p, "w") as f:
        for row in rows:
            f.write("\t".join(row) + "\n")
    bins = ctx.build("rt_doc.cpp", builds)
    ledgers = []
    for b in builds:
        for al in ("track", "simple"):
            led = os.path.join(ctx.work, f"doc_ledger_{b}.ndjson") if (al == "track" and b == builds[0]) else "-"
            # leaks are judged on the tracking allocator's ledger (which knows the recorded schema-buffer finding);
            # the SimpleAllocator pass is there for ASan's use-after-free / overflow detection
            env = {"ASAN_OPTIONS": "detect_leaks=0:abort_on_error=0:exitcode=97:allocator_may_return_null=1"} if al == "simple" else None
            fails, other, n = run_cases(ctx, bins[b], [al, led], p, b, timeout=1500, env=env)
            ctx.evals += n
            if led != "-" and os.path.exists(led):
                ledgers.append(led)
            for idx, kind, detail in fails:
                base_k = "crash" if kind.startswith("crash") else kind
                j = min(idx, len(rows) - 1)
                k = j
                while k > 0 and rows[k - 1][0] == rows[j][0]:
                    k -= 1
                ctx.add_fail(dict(property="C13", kind=base_k, sig=(kind if base_k == "crash" else base_k), shape=dict(kind=base_k), build=b, allocator=al,
                                  detail=detail, case=dict(history=[(x[2], x[3], x[4], x[5], x[6]) for x in rows[k:j + 1]]),
                                  replay=dict(harness="rt_doc.cpp", alloc=al, rows=rows[k:j + 1])))
    ctx.traces += len(recs) * len(builds) * 2
    ctx.log(f"document histories: {len(recs)} behaviours ({len(rows)} steps) replayed on tracking and ASan-observed freeing allocators; failures so far {len(ctx.fail)}")
    return ledgers


def run_prop(prop, tier, rule):
    ctx = Ctx(prop, tier)
    q = ctx.quick
    r, viol = mc(ctx, 4 if q else 5)
    if viol:
        ctx.add_fail(dict(property=prop, kind="model", sig="model-invariant", shape=dict(kind="model"),
                          detail="an invariant of spec/Dom.tla is violated in MC_Dom (see TLC output): " + r["out"][-1500:],
                          case=dict(tlc_tail=r["out"][-3000:]), build="tlc", replay=dict(harness="MC_Dom")))
    recs = gen_behaviours(ctx, 60 if q else 200, 25 if q else 40)
    recs = recs + gen_focus(ctx, 4 if (not q and prop == "C12") else 3)
    rows = rows_of(recs)
    builds = ["asan-avx2", "prod-avx2"] if q else ["asan-avx2", "prod-avx2", "asan-sse", "prod-dyn"]
    fails, ledgers, drift = replay(ctx, rows, builds)
    record(ctx, rows, fails, OWN[prop])
    ctx.traces += len(recs) * len(builds) * 2
    ctx.log(f"replayed {len(recs)} behaviours ({len(rows)} steps) x {len(builds)} builds x 2 allocators; "
            f"failures so far {len(ctx.fail)}; drift (model prediction vs code, not a verdict): {drift}")
    ledgers += lifecycle(ctx, prop, builds, 6 if q else 30, 25 if q else 40, 3 if q else 4)
    if prop == "C13":
        ledgers += document_histories(ctx, builds)
        for path, matched, total in validate_ledgers(ctx, ledgers):
            ev = open(path).read().splitlines()[matched] if matched < total else ""
            ctx.add_fail(dict(property="C13", kind="ledger-trace", sig="ledger-trace", shape=dict(kind="ledger-trace"), build=builds[0],
                              detail=f"Trace_Ownership rejects event {matched + 1} of {total}: {ev}", case=dict(event=ev, file=os.path.basename(path)),
                              replay=dict(harness="Trace_Ownership", event=ev)))
        ctx.log(f"Trace_Ownership: {len(ledgers)} ledger traces validated, {ctx.extra.get('ledger_events_validated', 0)} events")
    ctx.extra.update(behaviours=len(recs), steps=len(rows), builds=builds, drift=drift)
    for rec in recs[:2]:
        ctx.samples.append([dict(op=s["a"]["op"], c=s["a"].get("c")) for s in rec["steps"][:12]])
    ctx.assumptions += ["R-model: plain ordered containers (Dom!Abs, RPush/RAdd/RRemoveAt/...), JSON equality Dom!REq",
                        "operations are generated only under the library's documented preconditions (DESIGN appendix C)",
                        "capacity / ledger-size predictions of the I-model are compared as DRIFT only"]
    ctx.finish(rule=rule, nontrivial=len(recs))


def replay_file(path):
    rec = json.load(open(path))
    ctx = Ctx(rec["property"] + "-replay", "quick")
    rows = rec["replay"]["rows"]
    fails, _, _ = replay(ctx, rows, ["asan-avx2", "prod-avx2", "prod-sse"], allocs=(rec["replay"].get("alloc", "track"),), want_ledger=False)
    print("behaviour:", json.dumps([(r[2], r[3], r[4:7]) for r in rows]))
    for f in fails:
        print("  ", f)
    if not fails:
        print("  no failure reproduced")
    ctx.cleanup()
    return 1 if fails else 0
