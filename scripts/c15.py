"""C15 - All supported x86 build configurations compute identical results."""
from vlib import *
import p_text as T
import p_od as O

ALL = ["prod-avx2", "prod-sse", "prod-dyn", "asan-avx2", "asan-sse", "asan-dyn"]


def run(tier):
    ctx = Ctx("C15", tier)
    q = ctx.quick
    builds = ALL
    pads = [0, 1, 15, 17, 33] if q else [0, 1, 15, 16, 17, 31, 32, 33, 63, 64, 65]
    corpora = T.corpora(ctx, "C15")
    total = 0
    ndiff = 0
    for name, rows in corpora:
        fails, _, digs = T.replay_parse(ctx, rows, builds, pads, name=name, want_digest=True, shards=2)
        total += len(rows)
        ctx.traces += len(rows) * len(builds)
        # (a) every binary conforms to the R-oracle: any failure of any kind in any build counts here when the
        #     builds disagree about it; (b) digests identical across binaries
        ref = None
        maps = {}
        for b in builds:
            m = {}
            for line in digs.get(b, []):
                a = line.split("\t")
                m[a[0]] = tuple(a[1:])
            maps[b] = m
        ref = maps[builds[0]]
        for b in builds[1:]:
            for k, v in ref.items():
                w = maps[b].get(k)
                if w is not None and w != v:
                    ndiff += 1
                    row = rows[int(k)]
                    d = T.describe(row)
                    ctx.add_fail(dict(property="C15", kind="digest", sig=f"digest:{b}", shape=dict(kind="digest", build=b),
                                      detail=f"{builds[0]} -> (ok,code,value#,dump#)={v}; {b} -> {w}; text={d['text_repr'][:120]}",
                                      case=d, build=b, corpus=name, replay=dict(harness="rt_parse.cpp", row=row)))
        # failures that only some builds show are configuration disagreements too
        perbuild = {}
        for b, idx, kind, detail in fails:
            perbuild.setdefault((idx, kind.split(":", 1)[-1]), set()).add(b)
        for (idx, kind), bs in perbuild.items():
            if len(bs) < len(builds):
                row = rows[idx]
                d = T.describe(row)
                ctx.add_fail(dict(property="C15", kind="partial-failure", sig=f"partial:{kind}:{'+'.join(sorted(bs))}",
                                  shape=dict(kind="partial-failure"), build="+".join(sorted(bs)), corpus=name,
                                  detail=f"oracle failure '{kind}' only in builds {sorted(bs)}; text={d['text_repr'][:120]}",
                                  case=d, replay=dict(harness="rt_parse.cpp", row=row)))
        ctx.log(f"corpus {name}: {len(rows)} texts digested in {len(builds)} builds; disagreements so far {len(ctx.fail)}")
        ctx.samples.append(dict(corpus=name, **T.describe(rows[0])))
    # on-demand half: GetOnDemand / ParseOnDemand results across the six binaries
    F = T.fmtset
    odrecs = O.gen_od(ctx, dict(MaxNodes=3, Pool=3, Layouts=F([0, 2]), Wide="FALSE", D=2), "Gen_OnDemand_c15", equiv=False)
    odrecs += O.gen_od(ctx, dict(MaxNodes=1, Pool=0, Layouts=F([0, 3]), Wide="TRUE", D=1), "Gen_OnDemand_c15w", equiv=False)
    AS = list(range(0, 70, 3 if q else 1))
    cfg = f"CONSTANTS AS = {F(AS)} BS = {F([0, 1, 31, 33])}\nINIT InitOD\nNEXT NextOD\nINVARIANT EmitOD\nINVARIANT AllValid\nCHECK_DEADLOCK FALSE\n"
    odrecs += ctx.tlc_emit("Gen_OnDemandStr", cfg=cfg, timeout=1500, xmx="8g")
    odrows = O.rows_c10(odrecs)
    ofails, odigs = O.replay_od(ctx, "c10", odrows, builds, [0, 1, 17, 33], want_digest=True, name="c15od", shards=2)
    refm = {l.split("\t")[0]: l for l in odigs.get(builds[0], [])}
    for b in builds[1:]:
        for l in odigs.get(b, []):
            k = l.split("\t")[0]
            if k in refm and refm[k] != l:
                row = odrows[int(k)]
                ctx.add_fail(dict(property="C15", kind="od-digest", sig=f"od-digest:{b}", shape=dict(kind="od-digest", build=b), build=b,
                                  detail=f"on-demand (found, code, slice) differs: {builds[0]} -> {refm[k].split(chr(9))[1:]}; {b} -> {l.split(chr(9))[1:]}; text={O.describe(row)['text_repr'][:100]} path={row[2]}",
                                  case=O.describe(row), replay=dict(harness="rt_ondemand.cpp", mode="c10", row=row)))
    per = {}
    for b, idx, kind, detail in ofails:
        per.setdefault((idx, kind.split(":", 1)[-1]), set()).add(b)
    for (idx, kind), bs in per.items():
        if len(bs) < len(builds):
            row = odrows[idx]
            ctx.add_fail(dict(property="C15", kind="partial-failure", sig=f"od-partial:{kind}:{'+'.join(sorted(bs))}", shape=dict(kind="partial-failure"),
                              build="+".join(sorted(bs)), detail=f"on-demand oracle failure '{kind}' only in builds {sorted(bs)}; text={O.describe(row)['text_repr'][:100]} path={row[2]}",
                              case=O.describe(row), replay=dict(harness="rt_ondemand.cpp", mode="c10", row=row)))
    total += len(odrows)
    ctx.traces += len(odrows) * len(builds)
    ctx.log(f"on-demand: {len(odrows)} (text, path) cases digested in {len(builds)} builds; disagreements so far {len(ctx.fail)}")
    ctx.extra.update(replayed_cases=total, builds=builds, alignments=pads)
    ctx.assumptions += ["the R-models do not mention the vector width, so the specified result is configuration independent",
                        "on this CPU the runtime-dispatch resolver selects the AVX2 clones; SSE clones run only in the static build",
                        "error code is excluded from the digest for texts whose R-model fault is inside a string literal"]
    ctx.finish(rule="every TLC-generated text is parsed in six binaries {prod,asan} x {avx2,sse,dyn}; per text the digest "
                    "(accepted?, error class unless string fault, accessor-walk hash, Dump hash) must be identical; "
                    "non-trivial = distinct text", nontrivial=total)


def replay(path):
    return T.replay_file(path)
