#!/bin/sh
# Offline setup: verify the toolchain and parse every TLA+ module with SANY. Nothing is fetched.
cd "$(dirname "$0")/.." || exit 2
for t in java g++ clang++ python3 cmake; do command -v $t >/dev/null || { echo "missing tool $t"; exit 1; }; done
[ -f /opt/veriftools/tla/tla2tools.jar ] || { echo "missing tla2tools.jar"; exit 1; }
rc=0
for f in spec/*.tla; do
  out=$(cd spec && java -cp /opt/veriftools/tla/tla2tools.jar:/opt/veriftools/tla/CommunityModules-deps.jar tla2sany.SANY "$(basename "$f")" 2>&1)
  if echo "$out" | grep -q -i "error\|exception"; then echo "SANY failed on $f"; echo "$out" | tail -20; rc=1; fi
done
[ $rc -eq 0 ] && echo "setup ok: toolchain present, $(ls spec/*.tla | wc -l) TLA+ modules parse"
exit $rc
