#!/usr/bin/env python3
"""Shared machinery for the sonic-cpp TLA+ checks: TLC runs, harness builds from /repo's
working tree, replay/record drivers with crash attribution, known-finding classification,
evidence writing.  See /verif/DESIGN.md sections 1 and 12."""
import json, os, re, shutil, signal, subprocess, sys, tempfile, time, random, hashlib
from concurrent.futures import ThreadPoolExecutor

ROOT = os.path.dirname(os.path.dirname(os.path.abspath(__file__)))
REPO = os.environ.get("SONIC_REPO", "/repo")
SPEC = os.path.join(ROOT, "spec")
HARN = os.path.join(ROOT, "harness")
TLAJAR = "/opt/veriftools/tla/tla2tools.jar:/opt/veriftools/tla/CommunityModules-deps.jar"
NCPU = min(16, os.cpu_count() or 4)
# the registered checks always write /verif/evidence; the seeded-change driver redirects it
EVID = os.environ.get("VERIF_EVIDENCE_DIR", os.path.join(ROOT, "evidence"))

ARCH = {
    "avx2": ["-mavx2", "-mpclmul", "-mbmi", "-mlzcnt"],
    "sse": ["-msse4.2", "-mpclmul"],
    "dyn": ["-DSONIC_DYNAMIC_DISPATCH=1", "-msse4.2", "-mpclmul"],
}
# build tag -> (compiler, flags)
def build_flags(tag):
    kind, arch = tag.split("-")
    a = ARCH[arch]
    if kind == "prod":          # production: optimised, assertions off (as a Release build)
        return "g++", ["-O2", "-DNDEBUG"] + a
    if kind == "asan":
        return "g++", ["-O1", "-g", "-fsanitize=address", "-fno-omit-frame-pointer"] + a
    if kind == "tsan":
        return "clang++", ["-O1", "-g", "-fsanitize=thread"] + a
    if kind == "tsanlk":
        return "clang++", ["-O1", "-g", "-fsanitize=thread", "-DSONIC_LOCKED_ALLOCATOR"] + a
    if kind == "prodlk":
        return "g++", ["-O2", "-DNDEBUG", "-DSONIC_LOCKED_ALLOCATOR", "-pthread"] + a
    if kind == "hook":      # production flags + verification hooks (poisoned node stack, pool events)
        return "g++", ["-O2", "-DNDEBUG", "-DSONIC_VERIF_HOOKS"] + a
    if kind == "asanhook":
        return "g++", ["-O1", "-g", "-fsanitize=address", "-fno-omit-frame-pointer", "-DSONIC_VERIF_HOOKS"] + a
    if kind == "dbg":
        return "g++", ["-O0", "-g"] + a
    raise ValueError(tag)


class Violation(Exception):
    pass


class Ctx:
    """One run of one property's check."""

    def __init__(self, prop, tier, level="model_checking"):
        self.prop = prop
        self.tier = os.environ.get("VERIF_TIER", tier) or tier
        if self.tier not in ("quick", "thorough"):
            self.tier = "quick"
        self.seed = int(os.environ.get("VERIF_SEED", "20260927") or 20260927)
        self.rng = random.Random(self.seed)
        self.level = level
        self.t0 = time.time()
        os.makedirs(os.path.join(ROOT, ".work"), exist_ok=True)
        self.work = tempfile.mkdtemp(prefix=f"{prop}-", dir=os.path.join(ROOT, ".work"))
        self.states = 0
        self.transitions = 0
        self.traces = 0          # traces validated against impl + behaviours replayed
        self.evals = 0
        self.samples = []
        self.extra = {}
        self.assumptions = []
        self.fail = []           # failure records (dicts)
        self.tlc_runs = []
        self.exhaustive = True
        self.replay_dir = os.path.join(EVID, "replay")
        os.makedirs(self.replay_dir, exist_ok=True)
        for f in os.listdir(self.replay_dir):
            if f.startswith(prop + "-"):
                os.unlink(os.path.join(self.replay_dir, f))
        self.specdir = os.path.join(self.work, "spec")
        shutil.copytree(SPEC, self.specdir)
        self.quick = self.tier == "quick"

    def log(self, *a):
        print(f"[{self.prop} {time.time()-self.t0:6.1f}s]", *a, flush=True)

    def cleanup(self):
        shutil.rmtree(self.work, ignore_errors=True)

    # ------------------------------------------------------------------ TLC
    def tlc(self, module, cfg=None, env=None, workers=NCPU, timeout=900, simulate=None,
            depth=None, xmx="6g", xss="64m", extra=None, tag=None, check=True, deadlock=False, seed=None):
        """Run TLC on spec/<module>.tla.  cfg: text of the .cfg (or None to use <module>.cfg).
        Returns dict(exit, generated, distinct, out, coverage)."""
        tag = tag or module
        cfgpath = os.path.join(self.specdir, f"{tag}.cfg")
        if cfg is not None:
            open(cfgpath, "w").write(cfg)
        elif tag != module:
            shutil.copy(os.path.join(self.specdir, f"{module}.cfg"), cfgpath)
        md = os.path.join(self.work, f"md_{tag}_{len(self.tlc_runs)}")
        cmd = ["java", "-XX:+UseParallelGC", f"-Xmx{xmx}"]
        if xss:
            cmd.append(f"-Xss{xss}")
        cmd += ["-cp", TLAJAR, "tlc2.TLC", "-workers", str(workers), "-metadir", md,
                "-config", cfgpath, "-noGenerateSpecTE", "-seed", str(self.seed if seed is None else seed)]
        if not deadlock:
            cmd.append("-deadlock")
        if simulate:
            cmd += ["-simulate", f"num={simulate}"]
            if depth:
                cmd += ["-depth", str(depth)]
        if extra:
            cmd += extra
        cmd.append(os.path.join(self.specdir, f"{module}.tla"))
        e = dict(os.environ)
        e.pop("JAVA_TOOL_OPTIONS", None)
        if env:
            e.update({k: str(v) for k, v in env.items()})
        t = time.time()
        for attempt in (1, 2):
            try:
                p = subprocess.run(cmd, cwd=self.specdir, env=e, capture_output=True, text=True,
                                   timeout=timeout)
                out, code = p.stdout + p.stderr, p.returncode
            except subprocess.TimeoutExpired as ex:
                out = (ex.stdout or b"").decode(errors="replace") if isinstance(ex.stdout, bytes) else (ex.stdout or "")
                code = -9
            shutil.rmtree(md, ignore_errors=True)
            gen = dist = 0
            m = re.findall(r"(\d+) states generated, (\d+) distinct states found", out)
            if m:
                gen, dist = int(m[-1][0]), int(m[-1][1])
            m2 = re.findall(r"The number of states generated: (\d+)", out)
            if m2 and not m:
                gen = dist = int(m2[-1])
            # tool failure (not a verdict): parse error, OOM, internal error -> retry once
            toolfail = code in (-9,) or code >= 150 or "Parsing or semantic analysis failed" in out \
                or "OutOfMemory" in out
            if not toolfail or attempt == 2:
                break
        res = dict(exit=code, generated=gen, distinct=dist, out=out, wall=time.time() - t,
                   module=module, tag=tag, toolfail=toolfail)
        self.states += dist
        self.transitions += gen
        self.tlc_runs.append(dict(module=module, tag=tag, exit=code, generated=gen, distinct=dist,
                                  wall=round(time.time() - t, 1), simulate=simulate))
        if check and toolfail:
            sys.stdout.write(out[-3000:])
            self.abort(f"TLC tool failure on {tag} (exit {code}); not a property verdict")
        return res

    def abort(self, msg, code=2):
        print(f"ABORT property={self.prop}: {msg}", flush=True)
        self.cleanup()
        sys.exit(code)

    def tlc_emit(self, module, cfg=None, env=None, ok_exits=(0,), **kw):
        """Run a generator spec that appends JSON lines (as TLA+ strings) to $OUT. Returns the
        decoded records."""
        out = os.path.join(self.work, f"emit_{kw.get('tag') or module}_{len(self.tlc_runs)}.ndjson")
        if os.path.exists(out):
            os.unlink(out)
        e = dict(env or {})
        e["OUT"] = out
        r = self.tlc(module, cfg=cfg, env=e, **kw)
        if r["exit"] not in ok_exits:   # a generator has no property to violate: retry once, then give up
            if os.path.exists(out):
                os.unlink(out)
            r = self.tlc(module, cfg=cfg, env=e, **kw)
        self.last_emit = r
        if r["exit"] not in ok_exits:
            sys.stdout.write(r["out"][-3000:])
            self.abort(f"generator spec {module} ended with exit {r['exit']}")
        recs = []
        seen = set()
        if os.path.exists(out):
            with open(out) as f:
                for line in f:
                    line = line.rstrip("\n")
                    if not line or line in seen:
                        continue
                    seen.add(line)
                    try:
                        recs.append(json.loads(json.loads(line)) if line.startswith('"') else json.loads(line))
                    except Exception:
                        # several workers of one TLC append in 8 KiB chunks: a longer line can be torn.  A torn line loses
                        # one case (never a verdict); more than a few means the emitter should run one worker per process
                        torn = getattr(self, "_torn", 0) + 1
                        self._torn = torn
                        self.extra["torn_corpus_lines"] = torn
                        if torn > 50 and torn > 0.02 * (len(recs) + torn):
                            self.abort(f"too many unreadable corpus lines from {module} ({torn}): {line[:200]}")
        r["records"] = recs
        return recs

    # --------------------------------------------------------------- builds
    def build(self, src, tags, defines=(), hooks=False, extra=(), name=None, libs=()):
        """Compile harness/<src> against /repo's current include/ for each build tag, in
        parallel.  Returns {tag: path}.  A compile error is not a property verdict."""
        name = name or os.path.splitext(src)[0]
        outs = {}
        self._bcache = getattr(self, "_bcache", {})
        ckey = (src, name, tuple(defines), hooks, tuple(extra), tuple(libs))
        have = self._bcache.setdefault(ckey, {})
        need = [t for t in tags if t not in have]
        if not need:
            return {t: have[t] for t in tags}
        tags_all, tags = tags, need

        def one(tag):
            cxx, fl = build_flags(tag)
            out = os.path.join(self.work, f"{name}.{tag}")
            cmd = [cxx, "-std=c++17", "-w", f"-I{REPO}/include", f"-I{HARN}"] + fl + list(defines) + list(extra)
            if hooks:
                cmd.append("-DSONIC_VERIF_HOOKS")
            cmd += [os.path.join(HARN, src), "-o", out, "-pthread"] + list(libs)
            p = subprocess.run(cmd, capture_output=True, text=True)
            return tag, out, p

        with ThreadPoolExecutor(max_workers=min(len(tags), 8)) as ex:
            for tag, out, p in ex.map(one, tags):
                if p.returncode != 0:
                    sys.stdout.write(p.stderr[-4000:])
                    self.abort(f"harness {src} does not compile in build {tag} against {REPO}/include")
                have[tag] = out
        return {t: have[t] for t in tags_all}

    # ------------------------------------------------------------- failures
    def add_fail(self, rec):
        """rec: dict with at least kind, sig, shape, case (replayable), detail, build.  At most
        40 records are kept per (signature, shape); the rest are only counted."""
        key = (rec.get("sig", rec.get("kind", "?")), json.dumps(rec.get("shape") or {}, sort_keys=True))
        self.failcount = getattr(self, "failcount", {})
        self.failcount[key] = self.failcount.get(key, 0) + 1
        if self.failcount[key] <= 40:
            self.fail.append(rec)

    def write_replay(self, rec, n):
        path = os.path.join(self.replay_dir, f"{self.prop}-{n}.json")
        json.dump(rec, open(path, "w"), indent=1, default=str)
        return path

    def finish(self, rule, nontrivial=None, note=None):
        """Classify failures against known findings, write evidence, print verdict, exit."""
        kf = load_known(self.prop)
        matched = {}
        unlisted = []
        for rec in self.fail:
            k = match_known(kf, rec)
            if k is None:
                unlisted.append(rec)
            else:
                matched.setdefault(k["id"], []).append(rec)
        for kid, recs in matched.items():
            k = [x for x in kf if x["id"] == kid][0]
            print(f"KNOWN-FINDING: property={self.prop} {kid}: {k['what']} ({len(recs)} cases this run)", flush=True)
        # group unlisted by signature so that one root cause prints a handful of lines
        sigs = {}
        for rec in unlisted:
            sigs.setdefault(rec.get("sig", rec.get("kind", "?")), []).append(rec)
        n = 0
        for sig, recs in sigs.items():
            for rec in recs[:3]:
                n += 1
                path = self.write_replay(rec, n)
                print(f"VIOLATION property={self.prop} replay={path}  # {sig}: {rec.get('detail','')[:300]}", flush=True)
            tot = sum(c for (sg, _), c in getattr(self, "failcount", {}).items() if sg == sig)
            if tot > 3:
                print(f"  ... and {tot-3} more failing executions with signature {sig}", flush=True)
        cov = dict(states=max(self.states, 0), transitions=max(self.transitions, 0),
                   traces_validated_against_impl=self.traces,
                   evaluations=self.evals, rule=rule,
                   samples=self.samples[:12] or ["(none)"], exhaustive=bool(self.exhaustive),
                   tlc_runs=self.tlc_runs, known_findings_matched={k: len(v) for k, v in matched.items()},
                   unlisted_failures=len(unlisted))
        if nontrivial is not None:
            cov["distinct_nontrivial"] = nontrivial
        cov.update(self.extra)
        ev = dict(property_id=self.prop, tier=self.tier, seed=self.seed, level=self.level,
                  coverage=cov, assumptions=self.assumptions, wall_s=round(time.time() - self.t0, 1),
                  violations=len(unlisted))
        if note:
            ev["coverage"]["explanation"] = note
        os.makedirs(EVID, exist_ok=True)
        json.dump(ev, open(os.path.join(EVID, f"{self.prop}.json"), "w"), indent=1, default=str)
        self.cleanup()
        if unlisted:
            print(f"RESULT property={self.prop} tier={self.tier}: {len(unlisted)} violating cases "
                  f"({len(sigs)} signatures)", flush=True)
            sys.exit(1)
        print(f"RESULT property={self.prop} tier={self.tier}: held on everything explored "
              f"(states={self.states} transitions={self.transitions} traces/behaviours={self.traces} "
              f"evaluations={self.evals}) wall={time.time()-self.t0:.0f}s", flush=True)
        sys.exit(0)


# ----------------------------------------------------------------- known findings
def load_known(prop):
    p = os.path.join(ROOT, "known_findings.json")
    if not os.path.exists(p):
        return []
    d = json.load(open(p))
    return [f for f in d.get("findings", []) if f.get("property") == prop and f.get("status") == "known"]


def match_known(kf, rec):
    """A failure is downgraded only if every key of the finding's 'shape' equals the same key of
    the failure's 'shape' (computed by the check from the failing case with a fixed vocabulary)
    and the observed signature matches."""
    sh = rec.get("shape") or {}
    for k in kf:
        want = k.get("shape") or {}
        if want and all(sh.get(a) == b for a, b in want.items()) and \
                (not k.get("sig") or k["sig"] == rec.get("sig")):
            return k
    return None


# ----------------------------------------------------------------- helpers
def hexs(b):
    return bytes(b).hex() if b else "-"


def run_cases(ctx, binary, args, cases_path, build, timeout=900, env=None, max_restarts=25):
    """Run a replayer binary over a case file.  The binary's contract:
         argv: <mode...> <cases_path> <progress_path> <start_index>
         stdout lines:  'F\t<case-index>\t<kind>\t<detail>'  for a failed case,
                        'N\t<count>' executed count, other lines are collected as-is.
       It writes the index of the case it is about to execute into progress_path (8 bytes, LE).
       A crash / sanitizer abort / timeout is attributed to that case and the run resumes after it.
       Returns (fails:list[(idx,kind,detail)], other_lines:list[str], executed:int)."""
    prog = os.path.join(ctx.work, f"prog_{os.path.basename(binary)}_{abs(hash((tuple(args), cases_path)))%10**8}")
    start = 0
    fails, other = [], []
    executed = 0
    e = dict(os.environ)
    e["ASAN_OPTIONS"] = "detect_leaks=1:abort_on_error=0:exitcode=97:allocator_may_return_null=1:detect_stack_use_after_return=0"
    e["TSAN_OPTIONS"] = "exitcode=96:halt_on_error=1"
    e["UBSAN_OPTIONS"] = "print_stacktrace=1"
    if env:
        e.update(env)
    restarts = 0
    while True:
        with open(prog, "wb") as f:
            f.write((2**63 - 1).to_bytes(8, "little"))
        try:
            p = subprocess.run([binary] + list(args) + [cases_path, prog, str(start)], capture_output=True,
                               timeout=timeout, env=e)
            rc, so, se = p.returncode, p.stdout.decode(errors="replace"), p.stderr.decode(errors="replace")
        except subprocess.TimeoutExpired as ex:
            rc = -999
            so = (ex.stdout or b"").decode(errors="replace")
            se = (ex.stderr or b"").decode(errors="replace")
        solines = so.split("\n")
        if rc != 0 and solines and solines[-1] != "":
            solines = solines[:-1]        # torn last line of a crashed process
        for line in solines:
            if line.startswith("F\t"):
                a = line.split("\t", 3)
                fails.append((int(a[1]), a[2], a[3] if len(a) > 3 else ""))
            elif line.startswith("N\t"):
                executed += int(line.split("\t")[1])
            elif line:
                other.append(line)
        if rc == 0:
            break
        cur = int.from_bytes(open(prog, "rb").read(8), "little")
        if cur == 2**63 - 1:
            sys.stdout.write(se[-3000:])
            ctx.abort(f"replayer {binary} failed before executing any case (rc={rc})")
        why = "timeout" if rc == -999 else (f"signal {-rc}" if rc < 0 else
              ("asan" if rc == 97 or "AddressSanitizer" in se or "LeakSanitizer" in se else
               "tsan" if rc == 96 or "ThreadSanitizer" in se else f"exit {rc}"))
        summ = ""
        m = re.search(r"(ERROR: (Address|Leak|Thread)Sanitizer[^\n]*|WARNING: ThreadSanitizer[^\n]*)", se)
        if m:
            summ = m.group(1)
            m2 = re.findall(r"#\d+ 0x[0-9a-f]+ in ([^\n]+)", se)
            if m2:
                summ += " | " + " <- ".join(x.strip()[:90] for x in m2[:4])
        fails.append((cur, "crash:" + why.split()[0], f"{why} {summ}"))
        restarts += 1
        start = cur + 1
        if restarts >= max_restarts:
            other.append(f"# stopped after {restarts} crashes")
            break
    try:
        os.unlink(prog)
    except OSError:
        pass
    return fails, other, executed


def parallel(fn, items, workers=NCPU):
    with ThreadPoolExecutor(max_workers=workers) as ex:
        return list(ex.map(fn, items))
