#!/bin/bash
# scripts/seedtest.sh <seed-dir-name e.g. C01-1> <PROP> [tier]
# Applies /verif/seeded/<seed>/patch.diff to a scratch worktree of /repo (never to /repo itself),
# runs the property's check against that tree, and prints CAUGHT / MISSED.
S=$1; P=$2; T=${3:-quick}
W=/tmp/st/$S-$P
mkdir -p /tmp/st
git -C /repo worktree remove --force $W >/dev/null 2>&1
git -C /repo worktree add --detach $W HEAD >/dev/null 2>&1 || { echo "worktree failed"; exit 2; }
( cd $W && git apply /verif/seeded/$S/patch.diff ) || { echo "$S: patch does not apply"; git -C /repo worktree remove --force $W; exit 2; }
mkdir -p /tmp/st/ev-$S-$P
SONIC_REPO=$W VERIF_EVIDENCE_DIR=/tmp/st/ev-$S-$P /verif/run.sh $P $T > /tmp/st/$S-$P.log 2>&1
rc=$?
git -C /repo worktree remove --force $W >/dev/null 2>&1
{
if [ $rc -eq 1 ] && grep -aq "^VIOLATION property=$P" /tmp/st/$S-$P.log; then echo "$S vs $P $T: CAUGHT ($(grep -ac '^VIOLATION' /tmp/st/$S-$P.log) lines; first: $(grep -a -m1 '^VIOLATION' /tmp/st/$S-$P.log | cut -c1-220))";
elif [ $rc -eq 0 ]; then echo "$S vs $P $T: MISSED (exit 0)";
else echo "$S vs $P $T: exit $rc (see /tmp/st/$S-$P.log: $(tail -2 /tmp/st/$S-$P.log | tr '\n' ' ' | cut -c1-200))"; fi
} | tee /tmp/st/$S-$P.result
rm -rf /tmp/st/ev-$S-$P
tail -1 /tmp/st/$S-$P.result >> /verif/seeded/results.log 2>/dev/null
