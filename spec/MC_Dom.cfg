CONSTANTS
  KeyPool <- MCKeys
  Scalars <- MCScalars
  StrBytes <- MCStr
  MaxSize = 2
  MaxNodes = 5
SPECIFICATION Spec
INVARIANT Inv
CONSTRAINT Constraint
VIEW View
CHECK_DEADLOCK FALSE
