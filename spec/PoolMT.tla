-------------------------------- MODULE PoolMT --------------------------------
(***************************************************************************)
(* Threads allocating from one shared MemoryPoolAllocator (C17, third      *)
(* clause).  Malloc and the in-place branch of Realloc (allocator.h:       *)
(* 366-416) are split into the steps between which another thread can      *)
(* run; the SpinLock (allocator.h:77-100) is modelled with its exchange /   *)
(* spin-load / release-store steps.  Constant Locked says whether the       *)
(* library is built with SONIC_LOCKED_ALLOCATOR.                            *)
(*                                                                         *)
(* With Locked = TRUE TLC shows: mutual exclusion, no deadlock, and every  *)
(* block handed out is disjoint from every other and lies inside its       *)
(* chunk, for every interleaving.  With Locked = FALSE TLC finds the       *)
(* overlap (config MC_PoolMT_unlocked expects the violation): this is why  *)
(* the option is required for sharing a pool.                              *)
(***************************************************************************)
EXTENDS Naturals, Integers, Sequences, FiniteSets, TLC

CONSTANTS Threads, Locked, ChunkCap, Prog   \* Prog[t]: sequence of calls [op |-> "malloc", n] / [op |-> "grow", n]

VARIABLES lock,      \* SpinLock::lock_
          head,      \* [id, cap, size] of the head chunk
          nchunks,
          pc, ip,    \* per thread: program counter inside a call, index into Prog[t]
          loc,       \* per thread locals: sz (size read), mine (last block: [chunk, off, size])
          blocks     \* set of blocks handed out: [t, chunk, off, size]

vars == <<lock, head, nchunks, pc, ip, loc, blocks>>

Init == /\ lock = FALSE
        /\ head = [id |-> 0, cap |-> 0, size |-> 0]
        /\ nchunks = 1
        /\ pc = [t \in Threads |-> "idle"]
        /\ ip = [t \in Threads |-> 1]
        /\ loc = [t \in Threads |-> [sz |-> 0, mine |-> [chunk |-> -1, off |-> 0, size |-> 0], n |-> 0, hid |-> 0, hcap |-> 0]]
        /\ blocks = {}

Call(t) == Prog[t][ip[t]]

\* start the next call
Begin(t) == /\ pc[t] = "idle" /\ ip[t] <= Len(Prog[t])
            /\ pc' = [pc EXCEPT ![t] = IF Locked THEN "acquire" ELSE "read"]
            /\ loc' = [loc EXCEPT ![t].n = Call(t).n]
            /\ UNCHANGED <<lock, head, nchunks, ip, blocks>>

\* SpinLock::lock(): exchange(true, acquire); on failure spin on a relaxed load
Acquire(t) == /\ pc[t] = "acquire"
              /\ IF lock = FALSE THEN lock' = TRUE /\ pc' = [pc EXCEPT ![t] = "read"]
                 ELSE lock' = TRUE /\ pc' = [pc EXCEPT ![t] = "spin"]     \* exchange returned true
              /\ UNCHANGED <<head, nchunks, ip, loc, blocks>>
Spin(t) == /\ pc[t] = "spin" /\ lock = FALSE            \* load saw false: try the exchange again
           /\ pc' = [pc EXCEPT ![t] = "acquire"]
           /\ UNCHANGED <<lock, head, nchunks, ip, loc, blocks>>

\* Malloc: read the head chunk (size, capacity, identity)
Read(t) == /\ pc[t] = "read"
           /\ loc' = [loc EXCEPT ![t].sz = head.size, ![t].hid = head.id, ![t].hcap = head.cap]
           /\ pc' = [pc EXCEPT ![t] = IF Call(t).op = "malloc" THEN "check" ELSE "growcheck"]
           /\ UNCHANGED <<lock, head, nchunks, ip, blocks>>
\* if it does not fit: AddChunk (new head)
Check(t) == /\ pc[t] = "check"
            /\ IF loc[t].sz + loc[t].n > loc[t].hcap
               THEN /\ head' = [id |-> nchunks, cap |-> (IF ChunkCap > loc[t].n THEN ChunkCap ELSE loc[t].n), size |-> 0]
                    /\ nchunks' = nchunks + 1
               ELSE UNCHANGED <<head, nchunks>>
            /\ pc' = [pc EXCEPT ![t] = "bump1"]
            /\ UNCHANGED <<lock, ip, loc, blocks>>
\* buffer = GetChunkBuffer + chunkHead->size   (re-reads the head)
Bump1(t) == /\ pc[t] = "bump1"
            /\ loc' = [loc EXCEPT ![t].mine = [chunk |-> head.id, off |-> head.size, size |-> loc[t].n], ![t].sz = head.size]
            /\ pc' = [pc EXCEPT ![t] = "bump2"]
            /\ UNCHANGED <<lock, head, nchunks, ip, blocks>>
\* chunkHead->size += size   (the store of a read-modify-write whose load was Bump1)
Bump2(t) == /\ pc[t] = "bump2"
            /\ head' = [head EXCEPT !.size = loc[t].sz + loc[t].n]
            /\ blocks' = blocks \cup {[t |-> t, chunk |-> loc[t].mine.chunk, off |-> loc[t].mine.off, size |-> loc[t].n, cap |-> head.cap, hid |-> head.id]}
            /\ pc' = [pc EXCEPT ![t] = IF Locked THEN "release" ELSE "done"]
            /\ UNCHANGED <<lock, nchunks, ip, loc>>
\* Realloc growing the thread's last block by n in place: is it the last allocation of the head and is there room?
GrowCheck(t) == /\ pc[t] = "growcheck"
                /\ IF /\ loc[t].mine.chunk = loc[t].hid
                      /\ loc[t].mine.off = loc[t].sz - loc[t].mine.size
                      /\ loc[t].sz + loc[t].n <= loc[t].hcap
                   THEN pc' = [pc EXCEPT ![t] = "grow"]
                   ELSE pc' = [pc EXCEPT ![t] = IF Locked THEN "release" ELSE "done"]   \* (copy path = another Malloc; not repeated here)
                /\ UNCHANGED <<lock, head, nchunks, ip, loc, blocks>>
Grow(t) == /\ pc[t] = "grow"
           /\ head' = [head EXCEPT !.size = loc[t].sz + loc[t].n]
           /\ LET old == [t |-> t, chunk |-> loc[t].mine.chunk, off |-> loc[t].mine.off, size |-> loc[t].mine.size, cap |-> loc[t].hcap, hid |-> loc[t].hid]
                  new == [old EXCEPT !.size = loc[t].mine.size + loc[t].n] IN
              blocks' = (blocks \ {b \in blocks : b.t = t /\ b.chunk = old.chunk /\ b.off = old.off}) \cup {new}
           /\ loc' = [loc EXCEPT ![t].mine.size = loc[t].mine.size + loc[t].n]
           /\ pc' = [pc EXCEPT ![t] = IF Locked THEN "release" ELSE "done"]
           /\ UNCHANGED <<lock, nchunks, ip>>
Release(t) == /\ pc[t] = "release" /\ lock' = FALSE
              /\ pc' = [pc EXCEPT ![t] = "done"]
              /\ UNCHANGED <<head, nchunks, ip, loc, blocks>>
Done(t) == /\ pc[t] = "done"
           /\ pc' = [pc EXCEPT ![t] = "idle"] /\ ip' = [ip EXCEPT ![t] = ip[t] + 1]
           /\ UNCHANGED <<lock, head, nchunks, loc, blocks>>

Step(t) == Begin(t) \/ Acquire(t) \/ Spin(t) \/ Read(t) \/ Check(t) \/ Bump1(t) \/ Bump2(t)
           \/ GrowCheck(t) \/ Grow(t) \/ Release(t) \/ Done(t)
Next == \E t \in Threads : Step(t)
Spec == Init /\ [][Next]_vars
FairSpec == Spec /\ \A t \in Threads : WF_vars(Step(t))

\* ------------------------------------------------------------------ properties
InCritical(t) == pc[t] \in {"read", "check", "bump1", "bump2", "growcheck", "grow", "release"}
MutualExclusion == Locked => \A s, t \in Threads : s # t => ~(InCritical(s) /\ InCritical(t))
Disjoint == \A a, b \in blocks : a # b /\ a.chunk = b.chunk =>
              (a.off + a.size <= b.off \/ b.off + b.size <= a.off)
InsideChunk == \A b \in blocks : b.off + b.size <= b.cap
Finished == \A t \in Threads : pc[t] = "idle" /\ ip[t] > Len(Prog[t])
\* every call terminates (no deadlock / livelock under weak fairness of each thread)
Termination == <>Finished
SafetyInv == MutualExclusion /\ Disjoint /\ InsideChunk
=============================================================================
