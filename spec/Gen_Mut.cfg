CONSTANTS MutSigma = {123,125,91,93,44,58,34,92,32,10,48,49,45,46,101,97,1,120}
INIT Init
NEXT Next
INVARIANT Emit
CHECK_DEADLOCK FALSE
