------------------------------ MODULE JsonText ------------------------------
(***************************************************************************)
(* Reference semantics (R-model) of JSON texts as byte sequences:          *)
(*   - IsJsonText(t): t is one RFC 8259 JSON text                          *)
(*   - Denote(t):     the value it denotes                                 *)
(*   - DecodeString:  the string production with escapes and surrogates    *)
(*   - LexNum:        the number production (lexical pieces only)          *)
(* A text is Seq(0..255).  Positions are 1-based.  Nothing here knows      *)
(* about SIMD blocks, padding or sentinels: this is what the properties    *)
(* C01/C03/C05/C10 say, and it is the only oracle that raises VIOLATION.   *)
(*                                                                         *)
(* Values (tagged records, field k):                                       *)
(*   [k |-> "null"] [k |-> "true"] [k |-> "false"]                          *)
(*   [k |-> "str", b |-> bytes]                                            *)
(*   [k |-> "num", neg, ip, fp, hasf, hase, eneg, ed]  (lexical pieces)     *)
(*   [k |-> "arr", e |-> <<values>>]                                       *)
(*   [k |-> "obj", m |-> << <<keybytes, value>> ... >>]  (textual order,    *)
(*                                                     duplicates kept)    *)
(***************************************************************************)
EXTENDS NumberLex, FiniteSets, TLC

WS == {32, 9, 10, 13}
IsDigit(c) == c >= 48 /\ c <= 57
HexVal(c) == IF c >= 48 /\ c <= 57 THEN c - 48
             ELSE IF c >= 65 /\ c <= 70 THEN c - 55
             ELSE IF c >= 97 /\ c <= 102 THEN c - 87
             ELSE -1

\* -1 stands for "end of input"
At(t, i) == IF i >= 1 /\ i <= Len(t) THEN t[i] ELSE -1

RECURSIVE SkipWs(_, _)
SkipWs(t, i) == IF At(t, i) \in WS THEN SkipWs(t, i + 1) ELSE i

----------------------------------------------------------------------------
\* Strings

Utf8(cp) ==
  IF cp < 128 THEN <<cp>>
  ELSE IF cp < 2048 THEN <<192 + (cp \div 64), 128 + (cp % 64)>>
  ELSE IF cp < 65536 THEN
       <<224 + (cp \div 4096), 128 + ((cp \div 64) % 64), 128 + (cp % 64)>>
  ELSE <<240 + (cp \div 262144), 128 + ((cp \div 4096) % 64),
         128 + ((cp \div 64) % 64), 128 + (cp % 64)>>

Hex4(t, i) ==
  LET a == HexVal(At(t, i))     b == HexVal(At(t, i + 1))
      c == HexVal(At(t, i + 2)) d == HexVal(At(t, i + 3))
  IN IF a < 0 \/ b < 0 \/ c < 0 \/ d < 0 THEN -1
     ELSE a * 4096 + b * 256 + c * 16 + d
\* index of the first non-hex byte among t[i..i+3] (only used when Hex4 < 0)
HexBadAt(t, i) ==
  IF HexVal(At(t, i)) < 0 THEN i ELSE IF HexVal(At(t, i + 1)) < 0 THEN i + 1
  ELSE IF HexVal(At(t, i + 2)) < 0 THEN i + 2 ELSE i + 3
\* a fault found by running off the end of the input is reported as "seof"
HexWhy(t, j, w) == IF At(t, j) = -1 THEN "seof" ELSE w

\* the eight two-character escapes: escape letter -> byte
SimpleEsc(e) ==
  CASE e = 34  -> 34      \* \"
    [] e = 92  -> 92      \* \\
    [] e = 47  -> 47      \* \/
    [] e = 98  -> 8       \* \b
    [] e = 102 -> 12      \* \f
    [] e = 110 -> 10      \* \n
    [] e = 114 -> 13      \* \r
    [] e = 116 -> 9       \* \t
    [] OTHER   -> -1

IsHighSur(u) == u >= 55296 /\ u <= 56319
IsLowSur(u)  == u >= 56320 /\ u <= 57343

SFail(i, w) == [ok |-> FALSE, i |-> i, b |-> <<>>, why |-> w]

\* i = index of the next byte inside the literal (after the opening quote)
\* result: ok, i = index after the closing quote (or of the fault), b = decoded bytes,
\* why \in {"", "seof" (input ends inside the literal), "ctl", "esc", "hex", "sur"}
\* ln = TRUE: lenient mode used only to decide whether a text has faults other than
\* string-content faults: control bytes are taken verbatim and a backslash simply
\* protects the next byte.
RECURSIVE DecFrom(_, _, _, _)
DecFrom(t, i, acc, ln) ==
  LET c == At(t, i) IN
  IF c = -1 THEN SFail(i, "seof")
  ELSE IF c = 34 THEN [ok |-> TRUE, i |-> i + 1, b |-> acc, why |-> ""]
  ELSE IF c < 32 /\ ~ln THEN SFail(i, "ctl")
  ELSE IF c # 92 THEN DecFrom(t, i + 1, Append(acc, c), ln)
  ELSE IF ln THEN (IF At(t, i + 1) = -1 THEN SFail(i + 1, "seof") ELSE DecFrom(t, i + 2, acc, ln))
  ELSE
    LET e == At(t, i + 1) IN
    IF e = -1 THEN SFail(i + 1, "seof")
    ELSE IF SimpleEsc(e) >= 0 THEN DecFrom(t, i + 2, Append(acc, SimpleEsc(e)), ln)
    ELSE IF e # 117 THEN SFail(i + 1, "esc")
    ELSE
      LET u == Hex4(t, i + 2) IN
      IF u < 0 THEN SFail(HexBadAt(t, i + 2), HexWhy(t, HexBadAt(t, i + 2), "hex"))
      ELSE IF IsLowSur(u) THEN SFail(i + 2, "sur")
      ELSE IF IsHighSur(u) THEN
        IF At(t, i + 6) = 92 /\ At(t, i + 7) = 117
        THEN LET lo == Hex4(t, i + 8) IN
             IF lo >= 0 /\ IsLowSur(lo)
             THEN DecFrom(t, i + 12,
                    acc \o Utf8(65536 + (u - 55296) * 1024 + (lo - 56320)), ln)
             ELSE IF lo < 0 THEN SFail(HexBadAt(t, i + 8), HexWhy(t, HexBadAt(t, i + 8), "sur"))
             ELSE SFail(i + 8, "sur")
        ELSE IF At(t, i + 6) = 92 THEN SFail(i + 7, HexWhy(t, i + 7, "sur"))
        ELSE SFail(i + 6, HexWhy(t, i + 6, "sur"))
      ELSE DecFrom(t, i + 6, acc \o Utf8(u), ln)

\* lit = the bytes of a complete literal including both quotes
DecodeString(lit) ==
  IF At(lit, 1) # 34 THEN SFail(1, "eof")
  ELSE LET r == DecFrom(lit, 2, <<>>, FALSE) IN
       IF r.ok /\ r.i # Len(lit) + 1 THEN SFail(r.i, "trail") ELSE r

----------------------------------------------------------------------------
\* Numbers (lexical level): optional minus, 0 or a digit string without leading
\* zero, optional point with one or more digits, optional e/E with optional sign
\* and one or more digits.

RECURSIVE DigitsEnd(_, _)
DigitsEnd(t, i) == IF IsDigit(At(t, i)) THEN DigitsEnd(t, i + 1) ELSE i

DigitSeq(t, a, b) == [j \in 1..(b - a) |-> t[a + j - 1] - 48]   \* [a, b)

NFail(i) == [ok |-> FALSE, i |-> i]

LexNum(t, i) ==
  LET neg == At(t, i) = 45
      s   == IF neg THEN i + 1 ELSE i
      ie  == IF At(t, s) = 48 THEN s + 1 ELSE DigitsEnd(t, s)
  IN
  IF ie = s THEN NFail(s)
  ELSE
    LET hasf == At(t, ie) = 46
        fs   == ie + 1
        fe   == IF hasf THEN DigitsEnd(t, fs) ELSE ie
    IN
    IF hasf /\ fe = fs THEN NFail(fs)
    ELSE
      LET hase == At(t, fe) \in {101, 69}
          sg   == At(t, fe + 1) \in {43, 45}
          es   == IF sg THEN fe + 2 ELSE fe + 1
          ee   == IF hase THEN DigitsEnd(t, es) ELSE fe
      IN
      IF hase /\ ee = es THEN NFail(es)
      ELSE [ok |-> TRUE, i |-> ee,
            v |-> [k |-> "num", neg |-> neg,
                   ip |-> DigitSeq(t, s, ie),
                   fp |-> IF hasf THEN DigitSeq(t, fs, fe) ELSE <<>>,
                   hasf |-> hasf, hase |-> hase,
                   eneg |-> hase /\ At(t, fe + 1) = 45,
                   ed |-> IF hase THEN DigitSeq(t, es, ee) ELSE <<>>]]

----------------------------------------------------------------------------
\* Values

NoVal == [k |-> "none"]

\* what a number denotes: kind (NumberLex) and exact decimal magnitude d * 10^e
NumVal(n) == [k |-> "num", kind |-> NumKind(n), neg |-> n.neg,
              d |-> IF StripZ(NumD(n)) = <<>> THEN <<0>> ELSE StripZ(NumD(n)),
              e |-> IF StripZ(NumD(n)) = <<>> THEN 0 ELSE NumE(n)]
VFail(i, w) == [ok |-> FALSE, i |-> i, v |-> NoVal, why |-> w]
VOk(i, v)   == [ok |-> TRUE, i |-> i, v |-> v, why |-> ""]

Lit(t, i, w) == \A j \in 1..Len(w) : At(t, i + j - 1) = w[j]
\* index of the first byte that differs from the literal w (only used when ~Lit)
LitBadAt(t, i, w) == i - 1 + CHOOSE j \in 1..Len(w) :
                       At(t, i + j - 1) # w[j] /\ \A q \in 1..(j - 1) : At(t, i + q - 1) = w[q]
LitFail(t, i, w) == LET p == LitBadAt(t, i, w) IN VFail(p, IF At(t, p) = -1 THEN "eof" ELSE "lit")
TRUE4  == <<116, 114, 117, 101>>
FALSE5 == <<102, 97, 108, 115, 101>>
NULL4  == <<110, 117, 108, 108>>

\* A number whose magnitude rounds to infinity is not accepted (C01/C04):
\* NumOverflows is decided exactly in Rounding.tla.
RECURSIVE PVal(_, _, _), PArr(_, _, _, _), PObj(_, _, _, _)

PVal(t, i, ln) ==
  LET c == At(t, i) IN
  CASE c = 123 ->
         LET j == SkipWs(t, i + 1) IN
         IF At(t, j) = 125 THEN VOk(j + 1, [k |-> "obj", m |-> <<>>])
         ELSE PObj(t, j, <<>>, ln)
    [] c = 91 ->
         LET j == SkipWs(t, i + 1) IN
         IF At(t, j) = 93 THEN VOk(j + 1, [k |-> "arr", e |-> <<>>])
         ELSE PArr(t, j, <<>>, ln)
    [] c = 34 ->
         LET s == DecFrom(t, i + 1, <<>>, ln) IN
         IF s.ok THEN VOk(s.i, [k |-> "str", b |-> s.b]) ELSE VFail(s.i, s.why)
    [] c = 116 -> IF Lit(t, i, TRUE4) THEN VOk(i + 4, [k |-> "true"]) ELSE LitFail(t, i, TRUE4)
    [] c = 102 -> IF Lit(t, i, FALSE5) THEN VOk(i + 5, [k |-> "false"]) ELSE LitFail(t, i, FALSE5)
    [] c = 110 -> IF Lit(t, i, NULL4) THEN VOk(i + 4, [k |-> "null"]) ELSE LitFail(t, i, NULL4)
    [] c = 45 \/ IsDigit(c) ->
         LET n == LexNum(t, i) IN
         IF ~n.ok THEN VFail(n.i, IF At(t, n.i) = -1 THEN "eof" ELSE "num")
         ELSE IF ~ln /\ NumOverflows(n.v) THEN VFail(n.i, "inf")
         ELSE VOk(n.i, NumVal(n.v))
    [] OTHER -> VFail(i, IF c = -1 THEN "eof" ELSE "chr")

\* i = first non-ws byte of the next element
PArr(t, i, acc, ln) ==
  LET r == PVal(t, i, ln) IN
  IF ~r.ok THEN r
  ELSE LET j == SkipWs(t, r.i)
           c == At(t, j)
           acc2 == Append(acc, r.v) IN
       IF c = 44 THEN PArr(t, SkipWs(t, j + 1), acc2, ln)
       ELSE IF c = 93 THEN VOk(j + 1, [k |-> "arr", e |-> acc2])
       ELSE VFail(j, IF c = -1 THEN "eof" ELSE "chr")

\* i = first non-ws byte where a key must start
PObj(t, i, acc, ln) ==
  IF At(t, i) # 34 THEN VFail(i, IF At(t, i) = -1 THEN "eof" ELSE "chr")
  ELSE
    LET s == DecFrom(t, i + 1, <<>>, ln) IN
    IF ~s.ok THEN VFail(s.i, s.why)
    ELSE
      LET j == SkipWs(t, s.i) IN
      IF At(t, j) # 58 THEN VFail(j, IF At(t, j) = -1 THEN "eof" ELSE "chr")
      ELSE
        LET r == PVal(t, SkipWs(t, j + 1), ln) IN
        IF ~r.ok THEN r
        ELSE LET q == SkipWs(t, r.i)
                 c == At(t, q)
                 acc2 == Append(acc, <<s.b, r.v>>) IN
             IF c = 44 THEN PObj(t, SkipWs(t, q + 1), acc2, ln)
             ELSE IF c = 125 THEN VOk(q + 1, [k |-> "obj", m |-> acc2])
             ELSE VFail(q, IF c = -1 THEN "eof" ELSE "chr")

\* whole text: ws value ws
ParseTextM(t, ln) ==
  LET r == PVal(t, SkipWs(t, 1), ln) IN
  IF ~r.ok THEN r
  ELSE LET j == SkipWs(t, r.i) IN
       IF j = Len(t) + 1 THEN VOk(j, r.v) ELSE VFail(j, "trail")

ParseText(t) == ParseTextM(t, FALSE)
\* the text has no fault other than string-content faults and overflowing numbers
OnlyContentFaults(t) == ParseTextM(t, TRUE).ok

\* number of bytes that can start a string fault (backslash or control byte); used
\* only to decide when the exact fault class may be demanded (single-fault texts)
FaultBytes(t) == Cardinality({i \in 1..Len(t) : t[i] < 32 \/ t[i] = 92})
\* "one": exactly one fault and it is a string-content fault or an overflow: the exact class
\*        may be demanded;  "str": only string-content faults, several of them (which one a
\*        block-wise scanner meets first is not fixed);  "mix": other faults as well.
FaultScope(t, why) ==
  IF why \notin {"ctl", "esc", "hex", "sur", "inf", "seof"} THEN "mix"
  ELSE IF ~OnlyContentFaults(t) THEN "mix"
  ELSE IF why = "inf" THEN "one"
  ELSE IF \/ why \in {"ctl", "esc", "hex"} /\ FaultBytes(t) = 1
          \/ why = "sur" /\ FaultBytes(t) <= 2 /\ \A i \in 1..Len(t) : t[i] >= 32
       THEN "one" ELSE "str"

\* t is a text, or could become one by appending bytes (the first fault is the end of input)
Viable(t) == LET r == ParseText(t) IN r.ok \/ r.i = Len(t) + 1

IsJsonText(t) == ParseText(t).ok
Denote(t) == ParseText(t).v

=============================================================================
