------------------------------ MODULE Gen_Pool ------------------------------
(***************************************************************************)
(* Behaviours of Pool for replay on the real MemoryPoolAllocator           *)
(* (tlc -simulate).  Per step: the action label with its results as the    *)
(* specification computes them (null?, in place?, chunk ordinal/offset -   *)
(* the latter DRIFT-only) and Size()/Capacity()/refcount afterwards.       *)
(***************************************************************************)
EXTENDS MC_Pool, Json, CSV, IOUtils
CONSTANT Depth
VARIABLE hist

SizeOf == SumSeq2([j \in 1..Len(chunks') |-> chunks'[j].size])
CapOf  == SumSeq2([j \in 1..Len(chunks') |-> chunks'[j].cap])
StepRec == [a |-> last', size |-> SizeOf, cap |-> CapOf, rc |-> refcount', nlive |-> Len(blocks')]

GInit == Init /\ hist = <<>>
GNext == /\ Len(hist) < Depth
         /\ Next
         /\ hist' = Append(hist, StepRec)
EmitBeh == (Len(hist) = Depth \/ (refcount = 0 /\ Len(hist) >= 3)) => CSVWrite("%1$s", <<ToJson([steps |-> hist])>>, IOEnv.OUT)
=============================================================================
