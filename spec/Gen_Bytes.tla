----------------------------- MODULE Gen_Bytes ------------------------------
(***************************************************************************)
(* Bounded-exhaustive corpus of byte strings (G-bytes): every string over  *)
(* Sigma up to MaxLen, each judged by the R-model (JsonText).  One state   *)
(* per string; Emit writes one JSON line per state.                        *)
(***************************************************************************)
EXTENDS JsonText, Json, CSV, IOUtils
CONSTANTS Sigma, FullLen, MaxLen, MinEmit
VARIABLE t

Init == t = <<>>
\* every string up to FullLen; beyond that only viable prefixes are extended (a string whose
\* first fault lies before its end keeps that fault whatever is appended)
Next == /\ Len(t) < MaxLen
        /\ (Len(t) < FullLen \/ Viable(t))
        /\ \E c \in Sigma : t' = Append(t, c)

CaseOf(x, r) ==
  [t |-> x, ok |-> r.ok, why |-> r.why, at |-> r.i - 1,
   scope |-> FaultScope(x, r.why), v |-> r.v]
Case(x) == CaseOf(x, ParseText(x))

Emit == Len(t) >= MinEmit => \A r \in {ParseText(t)} : CSVWrite("%1$s", <<ToJson(CaseOf(t, r))>>, IOEnv.OUT)

\* shift rule used by the replayer's alignment amplification (DESIGN section 3):
\* leading spaces change neither the verdict nor the value
ShiftRule == \A p \in 1..3 :
  LET r == ParseText(t) s == ParseText([i \in 1..p |-> 32] \o t) IN
  r.ok = s.ok /\ r.v = s.v /\ (r.ok => s.i = r.i + p)
=============================================================================
