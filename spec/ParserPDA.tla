------------------------------ MODULE ParserPDA ------------------------------
(***************************************************************************)
(* I-model of Document::Parse: the goto-driven state machine               *)
(* Parser::parseImpl (parser.h:528-750) with its depth vector, cursor and  *)
(* first-error bookkeeping, running on the private padded copy of the      *)
(* input (text, then the sentinel x"x, generic_document.h:257-269),        *)
(* composed with the SAXHandler node stack (handler.h:72-201): capacity    *)
(* max(MinCap, len/2+2), bounds-checked push, placeholders of open         *)
(* containers holding the parent index, EndArray/EndObject moving the      *)
(* finished children, TearDown on error.  Scalars are delegated to the     *)
(* R-model operators (JsonText!LexNum, DecFrom): the machine here is the   *)
(* structure, the node stack and the error/offset rules.                   *)
(*                                                                         *)
(* The machine state is one record; Step(s) has one disjunct per code      *)
(* label.  Next == st' = Step(st) lets TLC walk it state by state;         *)
(* Run(s) evaluates a whole call inside one TLC state for bulk checks.     *)
(*                                                                         *)
(* Properties (C01, C02, C03 on the design):                               *)
(*   AcceptEquiv  the machine accepts exactly JsonText!IsJsonText          *)
(*   ResultOk     success: offset = len and the tree = Denote(text);       *)
(*                failure: 0 <= offset <= len                              *)
(*   StackSafe    np <= cap; End* only moves cells that were pushed;       *)
(*                TearDown only meets constructed cells                    *)
(***************************************************************************)
EXTENDS JsonText

CONSTANTS MinCap,     \* 16 in the code; 2 in one model-checking configuration so that refusal is reached
          CheckPush   \* TRUE: a refused push is a parse error (the repaired code); FALSE: the return value is
                      \* ignored as before commit b1d0361 - TLC then finds the StackSafe violation

Lbls == {"start", "obj_key", "obj_val", "obj_cont", "scope_end", "arr_val", "arr_cont", "doc_end", "done"}

\* 0-based byte access into the padded buffer (beyond the sentinel the padding is uninitialised: 0 here)
BufOf(text) == text \o <<120, 34, 120>>
Byte(s, i) == IF i + 1 <= Len(s.buf) THEN s.buf[i + 1] ELSE 0

InitState(text) ==
  [text |-> text, len |-> Len(text), buf |-> BufOf(text), pos |-> 0, lbl |-> "start",
   depth |-> <<>>, c |-> 0, err |-> 0, np |-> 0,
   cap |-> IF Len(text) \div 2 + 2 < MinCap THEN MinCap ELSE Len(text) \div 2 + 2,
   parent |-> 0, cells |-> <<>>, viol |-> "", events |-> <<>>]

\* scan.SkipSpace: c = first non-blank byte at or after pos, pos = index after it
RECURSIVE SkipIdx(_, _)
SkipIdx(s, i) == IF Byte(s, i) \in WS THEN SkipIdx(s, i + 1) ELSE i
Skip(s) == LET j == SkipIdx(s, s.pos) IN [s EXCEPT !.c = Byte(s, j), !.pos = j + 1]

Ev(s, e) == [s EXCEPT !.events = Append(s.events, e)]

\* ---- SAXHandler node stack ------------------------------------------------------------------------
\* node(): one more cell if there is room (0-based np counts cells in use)
CanPush(s) == s.np < s.cap
\* a refused push is a parse error (parser.h checkSax / the tests on Start*)
Refuse(s) == IF CheckPush THEN [s EXCEPT !.err = IF s.err = 0 THEN 2 ELSE s.err] ELSE s
PushVal(s, v, e) ==
  IF CanPush(s) THEN Ev([s EXCEPT !.np = s.np + 1, !.cells = Append(SubSeq(s.cells, 1, s.np), [k |-> "V", v |-> v, ofs |-> 0])], e)
  ELSE Refuse(s)
\* StartArray / StartObject: placeholder = constructed null node whose second word holds the parent index
PushOpen(s, e) ==
  IF CanPush(s) THEN Ev([s EXCEPT !.np = s.np + 1, !.cells = Append(SubSeq(s.cells, 1, s.np), [k |-> "PH", v |-> [k |-> "null"], ofs |-> s.parent]),
                                  !.parent = s.np], e)
  ELSE Refuse(s)
\* EndArray(count): the count cells above the placeholder become the children
EndArr(s, count) ==
  LET p == s.parent
      bad == ~(p + 1 <= s.np /\ s.cells[p + 1].k = "PH" /\ p + 1 + count = s.np)   \* moved cells must be pushed cells
      kids == [i \in 1..count |-> IF p + 1 + i <= Len(s.cells) THEN s.cells[p + 1 + i].v ELSE [k |-> "RAW"]]
      old == IF p + 1 <= Len(s.cells) THEN s.cells[p + 1].ofs ELSE 0
  IN Ev([s EXCEPT !.cells = Append(SubSeq(s.cells, 1, p), [k |-> "V", v |-> [k |-> "arr", e |-> kids], ofs |-> 0]),
                  !.np = p + 1, !.parent = old,
                  !.viol = IF bad /\ s.viol = "" THEN "EndArray moves cells that were not pushed" ELSE s.viol],
        [e |-> "EndArray", n |-> count])
EndObj(s, pairs) ==
  LET p == s.parent
      bad == ~(p + 1 <= s.np /\ s.cells[p + 1].k = "PH" /\ p + 1 + 2 * pairs = s.np)
      cell(i) == IF p + 1 + i <= Len(s.cells) THEN s.cells[p + 1 + i].v ELSE [k |-> "RAW"]
      mem == [i \in 1..pairs |-> <<(IF cell(2 * i - 1).k = "str" THEN cell(2 * i - 1).b ELSE <<>>), cell(2 * i)>>]
      old == IF p + 1 <= Len(s.cells) THEN s.cells[p + 1].ofs ELSE 0
  IN Ev([s EXCEPT !.cells = Append(SubSeq(s.cells, 1, p), [k |-> "V", v |-> [k |-> "obj", m |-> mem], ofs |-> 0]),
                  !.np = p + 1, !.parent = old,
                  !.viol = IF bad /\ s.viol = "" THEN "EndObject moves cells that were not pushed" ELSE s.viol],
        [e |-> "EndObject", n |-> pairs])

\* ---- primitives (the byte c sits at pos - 1) ----------------------------------------------------------
StrErr(w) == CASE w = "ctl" -> 4 [] w = "esc" -> 5 [] w \in {"hex", "sur"} -> 6 [] OTHER -> 2
\* string value or key: parseStringInplace, then the node is pushed whatever the outcome
ParseStr(s, iskey) ==
  LET r == DecFrom(s.buf, s.pos + 1, <<>>, FALSE)
      s1 == IF r.ok THEN [s EXCEPT !.pos = r.i - 1] ELSE [s EXCEPT !.pos = r.i - 1, !.err = StrErr(r.why)]
  IN PushVal(s1, [k |-> "str", b |-> r.b], [e |-> IF iskey THEN "Key" ELSE "String", b |-> r.b])
ParseNum(s) ==
  LET n == LexNum(s.buf, s.pos) IN         \* 1-based index of the byte at pos - 1 is pos
  IF ~n.ok THEN [s EXCEPT !.pos = n.i - 1, !.err = 2]
  ELSE LET v == NumVal(n.v)
           s1 == PushVal([s EXCEPT !.pos = n.i - 1], v, [e |-> "Number", kind |-> v.kind])
       IN IF NumOverflows(n.v) /\ s1.err = 0 THEN [s1 EXCEPT !.err = 3] ELSE s1
ParseLit(s) ==
  LET i == s.pos IN   \* 1-based index of c
  IF s.c = 116 /\ Lit(s.buf, i, TRUE4) THEN PushVal([s EXCEPT !.pos = s.pos + 3], [k |-> "true"], [e |-> "Bool", b |-> TRUE])
  ELSE IF s.c = 102 /\ Lit(s.buf, i, FALSE5) THEN PushVal([s EXCEPT !.pos = s.pos + 4], [k |-> "false"], [e |-> "Bool", b |-> FALSE])
  ELSE IF s.c = 110 /\ Lit(s.buf, i, NULL4) THEN PushVal([s EXCEPT !.pos = s.pos + 3], [k |-> "null"], [e |-> "Null"])
  ELSE [s EXCEPT !.err = 2]
IsNumStart(c) == c = 45 \/ IsDigit(c)
Fail(s) == [s EXCEPT !.err = IF s.err = 0 THEN 2 ELSE s.err, !.lbl = "doc_end"]   \* err_invalid_char keeps a specific code

\* a value in a container: returns the state after the value with lbl set to where the code goes next
Value(s, contlbl) ==
  CASE s.c = 123 -> LET s1 == PushOpen(s, [e |-> "StartObject"]) IN
                    IF s1.err # 0 THEN Fail(s1)
                    ELSE LET s2 == Skip([s1 EXCEPT !.depth = Append(s.depth, [arr |-> FALSE, cnt |-> 0])]) IN
                         IF s2.c = 125 THEN [EndObj(s2, 0) EXCEPT !.lbl = "scope_end"] ELSE [s2 EXCEPT !.lbl = "obj_key"]
    [] s.c = 91 -> LET s1 == PushOpen(s, [e |-> "StartArray"]) IN
                   IF s1.err # 0 THEN Fail(s1)
                   ELSE LET s2 == Skip([s1 EXCEPT !.depth = Append(s.depth, [arr |-> TRUE, cnt |-> 0])]) IN
                        IF s2.c = 93 THEN [EndArr(s2, 0) EXCEPT !.lbl = "scope_end"] ELSE [s2 EXCEPT !.lbl = "arr_val"]
    [] IsNumStart(s.c) -> LET s1 == ParseNum(s) IN IF s1.err # 0 THEN Fail(s1) ELSE [Skip(s1) EXCEPT !.lbl = contlbl]
    [] s.c \in {116, 102, 110} -> LET s1 == ParseLit(s) IN IF s1.err # 0 THEN Fail(s1) ELSE [Skip(s1) EXCEPT !.lbl = contlbl]
    [] s.c = 34 -> LET s1 == ParseStr(s, FALSE) IN IF s1.err # 0 THEN Fail(s1) ELSE [Skip(s1) EXCEPT !.lbl = contlbl]
    [] OTHER -> Fail(s)

IncBack(d) == [d EXCEPT ![Len(d)].cnt = d[Len(d)].cnt + 1]

Step(s) ==
  CASE s.lbl = "start" ->
         LET s0 == Skip(s) IN
         IF s0.c \in {123, 91} THEN Value(s0, "doc_end")      \* containers: as in a container position
         ELSE \* parsePrimitives: errors are not routed through err_invalid_char; a root string whose closing
              \* quote is the sentinel's leaves pos > len
              LET s1 == IF IsNumStart(s0.c) THEN ParseNum(s0)
                        ELSE IF s0.c = 34 THEN (LET t == ParseStr(s0, FALSE) IN IF t.pos > t.len /\ t.err = 0 THEN [t EXCEPT !.err = 2] ELSE t)
                        ELSE IF s0.c \in {116, 102, 110} THEN ParseLit(s0)
                        ELSE [s0 EXCEPT !.err = 2]
              IN [s1 EXCEPT !.lbl = "doc_end"]
    [] s.lbl = "obj_key" ->
         IF s.c # 34 THEN Fail(s)
         ELSE LET s1 == ParseStr(s, TRUE) IN
              IF s1.err # 0 THEN Fail(s1)
              ELSE LET s2 == Skip(s1) IN
                   IF s2.c # 58 THEN Fail(s2) ELSE Value(Skip(s2), "obj_cont")
    [] s.lbl = "obj_cont" ->
         LET d == IncBack(s.depth) s1 == [s EXCEPT !.depth = d] IN
         IF s.c = 44 THEN [Skip(s1) EXCEPT !.lbl = "obj_key"]
         ELSE IF s.c # 125 THEN Fail(s1)
         ELSE [EndObj(s1, d[Len(d)].cnt) EXCEPT !.lbl = "scope_end"]
    [] s.lbl = "arr_val" -> Value(s, "arr_cont")
    [] s.lbl = "arr_cont" ->
         LET d == IncBack(s.depth) s1 == [s EXCEPT !.depth = d] IN
         IF s.c = 44 THEN [Skip(s1) EXCEPT !.lbl = "arr_val"]
         ELSE IF s.c = 93 THEN [EndArr(s1, d[Len(d)].cnt) EXCEPT !.lbl = "scope_end"]
         ELSE Fail(s1)
    [] s.lbl = "scope_end" ->
         IF s.err # 0 THEN Fail(s)
         ELSE LET d == SubSeq(s.depth, 1, Len(s.depth) - 1) IN
              IF d = <<>> THEN [s EXCEPT !.depth = d, !.lbl = "doc_end"]
              ELSE LET s1 == Skip([s EXCEPT !.depth = d]) IN
                   [s1 EXCEPT !.lbl = IF d[Len(d)].arr THEN "arr_cont" ELSE "obj_cont"]
    [] s.lbl = "doc_end" ->
         \* Parser::Parse epilogue: trailing characters, offset clamp (parser.h:68-80)
         LET j == SkipIdx(s, s.pos)
             \* hasTrailingChars only looks at [pos, len)
             RECURSIVE Tr(_)
             Tr(i) == IF i >= s.len THEN [t |-> FALSE, p |-> IF s.pos > s.len THEN s.pos ELSE s.len]
                      ELSE IF Byte(s, i) \in WS THEN Tr(i + 1) ELSE [t |-> TRUE, p |-> i]
             tr == IF s.err = 0 THEN Tr(s.pos) ELSE [t |-> FALSE, p |-> s.pos]
             e2 == IF s.err = 0 /\ tr.t THEN 2 ELSE s.err
             p2 == IF tr.p > s.len THEN s.len ELSE tr.p
         IN [s EXCEPT !.err = e2, !.pos = p2, !.lbl = "done"]
    [] OTHER -> s

RECURSIVE Run(_)
Run(s) == IF s.lbl = "done" THEN s ELSE Run(Step(s))

\* ---- properties ----------------------------------------------------------------------------------------
AcceptEquiv(s) == s.lbl = "done" => ((s.err = 0) = ParseText(s.text).ok)
ResultOk(s) == s.lbl = "done" =>
  IF s.err = 0 THEN s.pos = s.len /\ s.np = 1 /\ s.cells[1].v = ParseText(s.text).v
  ELSE s.pos >= 0 /\ s.pos <= s.len
\* TearDown destroys cells 1..np: they must all exist and be constructed (V or the null placeholder)
StackSafe(s) == /\ s.np <= s.cap /\ s.viol = ""
                /\ Len(s.cells) >= s.np
                /\ \A i \in 1..s.np : s.cells[i].k \in {"V", "PH"}
\* the code's classification of the first fault agrees with the R-model where the property fixes it
ClassOk(s) == (s.lbl = "done" /\ s.err # 0) =>
  LET r == ParseText(s.text) sc == FaultScope(s.text, r.why) IN
  sc = "one" => s.err = (CASE r.why = "ctl" -> 4 [] r.why = "esc" -> 5 [] r.why \in {"hex", "sur"} -> 6 [] r.why = "inf" -> 3 [] OTHER -> s.err)
=============================================================================
