---------------------------- MODULE Gen_OnDemand ----------------------------
(***************************************************************************)
(* Corpus for C10: valid texts (rendered syntax trees, as Gen_Values) x    *)
(* pointer paths derived from the denoted value: existing keys, absent     *)
(* keys, the raw spelling of an escaped key, indices 0, 1, size-1, size,   *)
(* -1, and steps of the wrong kind, to depth D.  Expected outcome =        *)
(* JsonValue!Lookup on JsonText!Denote(text).                              *)
(***************************************************************************)
EXTENDS Gen_Values, SkipScan
CONSTANTS D
VARIABLES path

ExtraKeys == { <<122, 122>>, <<>>, <<92, 110>>, <<92, 117, 48, 48, 54, 49>> }   \* zz, "", raw \n, raw a

Steps(v) ==
  IF v.k = "obj" THEN {KeyStep(kb) : kb \in {v.m[i][1] : i \in 1..Len(v.m)} \cup ExtraKeys} \cup {IdxStep(0)}
  ELSE IF v.k = "arr" THEN {IdxStep(n) : n \in {0, 1, Len(v.e) - 1, Len(v.e), -1, 2}} \cup {KeyStep(<<97>>)}
  ELSE IF v.k = "none" THEN {}
  ELSE {KeyStep(<<97>>), IdxStep(0)}

Child(v, s) == Lookup(v, <<s>>).v

RECURSIVE Paths(_, _)
Paths(v, d) ==
  {<<>>} \cup (IF d = 0 THEN {}
               ELSE UNION {{<<s>> \o p : p \in Paths(Child(v, s), d - 1)} : s \in Steps(v)})

\* (the containers with hundreds of members are left to the parse corpora: a path set per key
\* would square their cost)
InitOD == /\ tree \in (IF Wide THEN WideTrees ELSE AllTrees)
          /\ layout \in Layouts
          /\ path \in Paths(ParseText(RenderL(tree, layout)).v, D)
NextOD == UNCHANGED <<tree, layout, path>>

CaseODOf(x, r, lk) == [t |-> x, ok |-> r.ok, path |-> path, found |-> lk.found, v |-> lk.v, layout |-> layout]
CaseOD == CaseODOf(Text, ParseText(Text), Lookup(ParseText(Text).v, path))
\* design level: the scanner model (spec/SkipScan.tla) agrees with Lookup on every generated case and reads nothing outside the text
ODEquiv == Equiv(Text, path) /\ InBounds(Text, path)
EmitOD == \A x \in {Text} : \A r \in {ParseText(x)} : \A lk \in {Lookup(r.v, path)} : CSVWrite("%1$s", <<ToJson(CaseODOf(x, r, lk))>>, IOEnv.OUT)
=============================================================================
