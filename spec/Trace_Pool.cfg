CONSTANTS
  ChunkCap = 64
  Adaptive = FALSE
  MaxChunkCap = 256
  UserBuf = 0
  Sizes = {}
  MaxBlocks = 0
  MaxHandles = 1
  MaxSteps = 0
INIT TInit
NEXT TNext
INVARIANT Inv
POSTCONDITION Accepted
CHECK_DEADLOCK FALSE
