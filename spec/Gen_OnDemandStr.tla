-------------------------- MODULE Gen_OnDemandStr ---------------------------
(***************************************************************************)
(* On-demand corpus (C10, C05 on-demand keys): string literals             *)
(*    quote filler^a item filler^b quote                                   *)
(* whose escapes, quotes and brackets fall at every offset relative to the *)
(* 16/32/64-byte scanning blocks, placed where the skipper meets them:     *)
(* inside a skipped container, as a skipped member value, as a skipped     *)
(* key and as the key being looked up (whose raw spelling differs from     *)
(* its decoded value).  Expected outcome = JsonValue!Lookup.               *)
(***************************************************************************)
EXTENDS JsonValue, Json, CSV, IOUtils
CONSTANTS AS, BS
VARIABLES it, a, b, kind

Items == <<
  <<>>, <<92,34>>, <<92,92>>, <<92,110>>, <<92,117,48,48,52,49>>, <<92,47>>,
  <<93>>, <<125>>, <<91>>, <<123>>, <<44>>, <<58>>,              \* brackets and separators inside strings
  <<92,92,92,34>>,                                                \* \\ followed by \"
  <<92,117,100,56,51,100,92,117,100,101,48,48>> >>
Fill(n) == [j \in 1..n |-> 97 + (j % 23)]
SLit == <<34>> \o Fill(a) \o Items[it] \o Fill(b) \o <<34>>
KA == <<34,116,34>>   \* "t"
NumLit == <<49>> \o [j \in 1..a |-> 48 + (j % 10)]
Blanks == [j \in 1..b |-> IF j % 5 = 0 THEN 10 ELSE 32]

Text ==
  CASE kind = "inarr"   -> <<91,91>> \o SLit \o <<44,49,93,44,55,93>>                       \* [[LIT,1],7]
    [] kind = "inobj"   -> <<123,34,115,34,58,123,34,113,34,58>> \o SLit \o <<125,44>> \o KA \o <<58,56,125>>  \* {"s":{"q":LIT},"t":8}
    [] kind = "skipval" -> <<123,34,115,34,58>> \o SLit \o <<44>> \o KA \o <<58,91,57,93,125>>  \* {"s":LIT,"t":[9]}
    [] kind = "skipkey" -> <<123>> \o SLit \o <<58,49,44>> \o KA \o <<58,50,125>>             \* {LIT:1,"t":2}
    [] kind = "getkey"  -> <<123,34,117,34,58,48,44>> \o SLit \o <<58,123,34,120,34,58,51,125,125>>  \* {"u":0,LIT:{"x":3}}
    [] kind = "elem"    -> <<91,48,44>> \o SLit \o <<44,91,52,93,93>>                         \* [0,LIT,[4]]
    \* a skipped number of a+1 digits followed by b blanks before the separator (the token search runs over them)
    [] kind = "numarr"  -> <<91>> \o NumLit \o Blanks \o <<44,55,44,91,56,93,93>>              \* [NUM   ,7,[8]]
    [] kind = "numobj"  -> <<123,34,115,34,58>> \o NumLit \o Blanks \o <<44>> \o KA \o <<58,91,57,93,125>>   \* {"s":NUM   ,"t":[9]}

Dec == DecodeString(SLit).b
PathOf ==
  CASE kind = "inarr"   -> <<IdxStep(1)>>
    [] kind = "inobj"   -> <<KeyStep(<<116>>)>>
    [] kind = "skipval" -> <<KeyStep(<<116>>), IdxStep(0)>>
    [] kind = "skipkey" -> <<KeyStep(<<116>>)>>
    [] kind = "getkey"  -> <<KeyStep(Dec), KeyStep(<<120>>)>>
    [] kind = "elem"    -> <<IdxStep(2), IdxStep(0)>>
    [] kind = "numarr"  -> <<IdxStep(2), IdxStep(0)>>
    [] kind = "numobj"  -> <<KeyStep(<<116>>), IdxStep(0)>>
\* a second path per case: one step further / the literal itself
Path2 ==
  CASE kind = "inarr"   -> <<IdxStep(0), IdxStep(0)>>
    [] kind = "inobj"   -> <<KeyStep(<<115>>), KeyStep(<<113>>)>>
    [] kind = "skipval" -> <<KeyStep(<<115>>)>>
    [] kind = "skipkey" -> <<KeyStep(Dec)>>
    [] kind = "getkey"  -> <<KeyStep(SubSeq(SLit, 2, Len(SLit) - 1))>>     \* the raw spelling as a key
    [] kind = "elem"    -> <<IdxStep(1)>>
    [] kind = "numarr"  -> <<IdxStep(1)>>
    [] kind = "numobj"  -> <<KeyStep(<<115>>)>>

InitOD == \/ /\ it \in DOMAIN Items /\ a \in AS /\ b \in BS
             /\ kind \in {"inarr", "inobj", "skipval", "skipkey", "getkey", "elem"}
          \/ /\ it = 1 /\ a \in AS /\ b \in BS \cup {2, 15, 16, 17, 47, 48}
             /\ kind \in {"numarr", "numobj"}
NextOD == UNCHANGED <<it, a, b, kind>>

One(p) == LET x == Text r == ParseText(x) lk == Lookup(r.v, p) IN
  [t |-> x, ok |-> r.ok, path |-> p, found |-> lk.found, v |-> lk.v, layout |-> 0]
EmitOD == /\ CSVWrite("%1$s", <<ToJson(One(PathOf))>>, IOEnv.OUT)
          /\ CSVWrite("%1$s", <<ToJson(One(Path2))>>, IOEnv.OUT)
AllValid == ParseText(Text).ok
=============================================================================
