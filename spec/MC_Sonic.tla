------------------------------ MODULE MC_Sonic ------------------------------
EXTENDS Sonic, SonicTexts
MCKeys == {<<97>>, <<98>>}
MCScalars == {Null, Uint(1), Real(3)}
MCStr == {<<>>, <<120>>}
SimKeys == {<<97>>, <<98>>, <<>>, <<107, 49, 50>>}
SimScalars == {Bool(TRUE), Uint(7), Uint(0), Sint(-1), Real(3), Real(0), Real(NegZero)}
SimStr == {<<>>, <<120, 34, 92, 10>>}
SView == <<root, aux, nlive, rroot, raux, buf>>
=============================================================================
