---------------------------- MODULE MC_ParserPDA ----------------------------
(* Model checking of ParserPDA over all byte strings up to MaxLen over Sigma (state-by-state), and bulk
   evaluation (whole call per state) plus emission of the expected SAX event sequence for drift replay. *)
EXTENDS ParserPDA, Json, CSV, IOUtils
CONSTANTS Sigma, MaxLen, Bulk
VARIABLE st

Texts == UNION {[1..n -> Sigma] : n \in 0..MaxLen}
Init == \E t \in Texts : st = (IF Bulk THEN Run(InitState(t)) ELSE InitState(t))
Next == st.lbl # "done" /\ st' = Step(st)

Inv == AcceptEquiv(st) /\ ResultOk(st) /\ StackSafe(st) /\ ClassOk(st)
EmitRun == st.lbl = "done" =>
  CSVWrite("%1$s", <<ToJson([t |-> st.text, err |-> st.err, pos |-> st.pos, events |-> st.events, cap |-> st.cap])>>, IOEnv.OUT)
=============================================================================
