------------------------------- MODULE Document -------------------------------
(***************************************************************************)
(* Ownership of GenericDocument (generic_document.h:47-99, 184-300) with   *)
(* an allocator that really frees: which blocks a document owns - the      *)
(* node tree, the padded input copy str_ that parsed strings point into,   *)
(* the schema input copy schema_str_ - and what every operation takes      *)
(* from / returns to the allocator.  Two documents, so that move and swap  *)
(* are covered.                                                            *)
(*                                                                         *)
(* Abstract state per document: alive; tree = number of blocks owned by    *)
(* the node tree; str / sch = the buffer is held; refstr / refsch = nodes  *)
(* of the tree point into that buffer.  Global: orphans = blocks no owner  *)
(* can reach any more (leaked), dangling = some tree points into a buffer  *)
(* that was freed.                                                         *)
(*                                                                         *)
(* Properties (C13): Exact (nlive = what live documents hold + orphans),   *)
(* NoDangling, and NoLeak (orphans = 0).  NoLeak is violated by the        *)
(* transcription of allocateSchemaStringBuffer, which overwrites           *)
(* schema_str_ without releasing the previous buffer: the recorded         *)
(* finding C13-schema-buffer.                                              *)
(***************************************************************************)
EXTENDS Naturals, Integers, FiniteSets, TLC
CONSTANTS Docs, TreeSizes,
          SchemaChain,   \* TRUE (the code since its repair): every ParseSchema text buffer is kept, chained, until the document dies
          FixSchemaLeak,  \* FixSchemaLeak = TRUE: model of a repaired allocateSchemaStringBuffer
          SlotStringsOwned           \* TRUE (the code): a string that lands in an existing slot is copied (SetString(s, alloc));
                                     \* FALSE: it is stored as a borrowed view of schema_str_ (a design that is shown to dangle)
VARIABLES doc, orphans, dangling, nlive, last,
          snap      \* a free-standing deep copy of some document's tree, in another allocator:
                    \* [on, src, ref]; ref = it shares bytes with the schema buffer now owned by document src
vars == <<doc, orphans, dangling, nlive, last, snap>>
NoSnap == [on |-> FALSE, src |-> 0, ref |-> FALSE]
\* the copy loses bytes when the schema buffer of document x is released
Rel(x) == snap.on /\ snap.ref /\ snap.src = x

Empty == [alive |-> TRUE, tree |-> 0, str |-> FALSE, sch |-> FALSE, schn |-> 0, refstr |-> FALSE, refsch |-> FALSE, slotc |-> FALSE]
B(x) == IF x THEN 1 ELSE 0
\* schn = number of schema text buffers the document holds (at most 1 unless SchemaChain)
Held(d) == IF doc[d].alive THEN doc[d].tree + B(doc[d].str) + doc[d].schn ELSE 0

Init == /\ doc = [d \in Docs |-> Empty] /\ orphans = 0 /\ dangling = FALSE /\ nlive = 0 /\ snap = NoSnap
        /\ last = [op |-> "init"]

\* Parse / ParseOnDemand (:129-170, :207-225): destroyDom releases tree, str_, schema_str_; a new str_ is
\* allocated; on success the tree is built (k blocks) and its strings point into str_
Parse(d, ok, k) ==
  /\ doc[d].alive
  /\ doc' = [doc EXCEPT ![d] = [alive |-> TRUE, tree |-> IF ok THEN k ELSE 0, str |-> TRUE, sch |-> FALSE, schn |-> 0,
                                refstr |-> ok /\ k > 0, refsch |-> FALSE, slotc |-> FALSE]]
  /\ nlive' = nlive - Held(d) + 1 + (IF ok THEN k ELSE 0)
  /\ dangling' = (dangling \/ (doc[d].sch /\ Rel(d)))
  /\ UNCHANGED <<orphans, snap>>
  /\ last' = [op |-> "parse", d |-> d, ok |-> ok, k |-> k]

\* ParseSchema (:227-242): no destroy; a new schema_str_ is allocated over the old pointer; matched members
\* are rewritten in place (the tree may lose and gain blocks) and new strings point into schema_str_
ParseSchema(d, ok, k) ==
  /\ doc[d].alive
  /\ LET hadsch == doc[d].sch
         leak == hadsch /\ ~FixSchemaLeak /\ ~SchemaChain IN
     /\ doc' = [doc EXCEPT ![d].tree = k, ![d].sch = TRUE, ![d].schn = (IF SchemaChain THEN doc[d].schn + 1 ELSE 1),
                            ![d].refsch = (doc[d].refsch \/ k > 0),
                            ![d].slotc = (doc[d].slotc \/ (k > 0 /\ ~SlotStringsOwned))]
     /\ orphans' = orphans + B(leak)
     \* a repaired version may only release the old buffer if no node points into it
     /\ dangling' = (dangling \/ (hadsch /\ FixSchemaLeak /\ ~SchemaChain /\ (doc[d].refsch \/ Rel(d))))
     /\ UNCHANGED snap
     /\ nlive' = nlive - doc[d].tree + k + 1 - B(hadsch /\ FixSchemaLeak /\ ~SchemaChain)
  /\ last' = [op |-> "parseschema", d |-> d, ok |-> ok, k |-> k]

\* move assignment a = std::move(b) (:62-84) and move construction
Move(a, b) ==
  /\ a # b /\ doc[a].alive /\ doc[b].alive
  /\ doc' = [doc EXCEPT ![a] = doc[b], ![b] = [Empty EXCEPT !.alive = FALSE]]     \* b: allocator pointer cleared
  /\ nlive' = nlive - Held(a)
  /\ dangling' = (dangling \/ (doc[a].sch /\ Rel(a)))
  /\ snap' = IF snap.on /\ snap.src = b THEN [snap EXCEPT !.src = a] ELSE snap
  /\ UNCHANGED orphans
  /\ last' = [op |-> "move", a |-> a, b |-> b]
Swap(a, b) ==
  /\ a # b /\ doc[a].alive /\ doc[b].alive
  /\ doc' = [doc EXCEPT ![a] = doc[b], ![b] = doc[a]]
  /\ snap' = IF snap.on /\ snap.src = a THEN [snap EXCEPT !.src = b] ELSE IF snap.on /\ snap.src = b THEN [snap EXCEPT !.src = a] ELSE snap
  /\ UNCHANGED <<orphans, dangling, nlive>>
  /\ last' = [op |-> "swap", a |-> a, b |-> b]
\* a mutation through the node API: the tree gains or loses blocks
Mutate(d, k) ==
  /\ doc[d].alive
  /\ doc' = [doc EXCEPT ![d].tree = k]
  /\ nlive' = nlive - doc[d].tree + k
  /\ UNCHANGED <<orphans, dangling, snap>>
  /\ last' = [op |-> "mutate", d |-> d, k |-> k]
\* destructor (:99, :192-205), then a fresh document in its place
Recreate(d) ==
  /\ doc' = [doc EXCEPT ![d] = Empty]
  /\ nlive' = nlive - Held(d)
  /\ dangling' = (dangling \/ (doc[d].alive /\ doc[d].sch /\ Rel(d)))
  /\ UNCHANGED <<orphans, snap>>
  /\ last' = [op |-> "recreate", d |-> d]
\* a deep copy of the tree into a free-standing node of another allocator (copy constructor, :74-127): views into the
\* document's buffers are copied, borrowed (const) strings are shared with whoever owns their bytes
CopyOut(d) ==
  /\ doc[d].alive
  /\ snap' = [on |-> TRUE, src |-> d, ref |-> (doc[d].slotc /\ doc[d].sch)]
  /\ UNCHANGED <<doc, orphans, dangling, nlive>>
  /\ last' = [op |-> "copyout", d |-> d]
DropCopy ==
  /\ snap.on /\ snap' = NoSnap
  /\ UNCHANGED <<doc, orphans, dangling, nlive>>
  /\ last' = [op |-> "dropcopy", d |-> 0]

Next == \/ \E d \in Docs, ok \in BOOLEAN, k \in TreeSizes : Parse(d, ok, k) \/ ParseSchema(d, ok, k)
        \/ \E a, b \in Docs : Move(a, b) \/ Swap(a, b)
        \/ \E d \in Docs, k \in TreeSizes : Mutate(d, k)
        \/ \E d \in Docs : Recreate(d) \/ CopyOut(d)
        \/ DropCopy
Spec == Init /\ [][Next]_vars

HeldAll == LET S == {d \in Docs : doc[d].alive} IN
  IF S = {} THEN 0 ELSE LET RECURSIVE Sum(_) Sum(T) == IF T = {} THEN 0 ELSE LET x == CHOOSE y \in T : TRUE IN Held(x) + Sum(T \ {x}) IN Sum(S)
Exact == nlive = HeldAll + orphans
NoDangling == ~dangling
NoLeak == orphans = 0
\* orphans only grows: bound it for model checking
Bound == orphans <= 2 /\ \A d \in Docs : doc[d].schn <= 3
=============================================================================
