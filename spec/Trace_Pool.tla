------------------------------ MODULE Trace_Pool ------------------------------
(***************************************************************************)
(* Validation of pool-allocator event traces recorded from the real        *)
(* MemoryPoolAllocator through hook H2 (events are emitted after the       *)
(* state change while the allocator lock is held, so their order is the    *)
(* order in which the shared pool changed): the recorded sequence must be  *)
(* a behaviour of the sequential specification Pool.tla (C16; and C17      *)
(* when several threads share one locked pool).                            *)
(*                                                                         *)
(* Event kinds: "malloc" (n, off, new, hsize, hcap), "grow" (inc, off,     *)
(* hsize), "clear", "reset" (a new pool).  Each trace action is            *)
(*    IsEvent(kind) /\ <Pool action> /\ <logged results equal the          *)
(*    specification's>                                                     *)
(***************************************************************************)
EXTENDS Pool, Json, IOUtils
VARIABLE l
Tr == ndJsonDeserialize(IOEnv.TRACE)

TInit == Init /\ l = 1
IsEvent(e) == l <= Len(Tr) /\ Tr[l].e = e /\ l' = l + 1

TMalloc == /\ IsEvent("malloc")
           /\ Malloc(Tr[l].n)
           /\ last'.off = Tr[l].off
           /\ last'.newchunk = (Tr[l].new = 1)
           /\ chunks'[1].size = Tr[l].hsize
           /\ chunks'[1].cap = Tr[l].hcap
           /\ steps' = steps
\* in-place growth of the block that starts at offset off in the head chunk
TGrow == /\ IsEvent("grow")
         /\ \E i \in 1..Len(blocks) :
              /\ blocks[i].chunk = HeadC.id /\ blocks[i].off = Tr[l].off
              /\ Realloc(i, blocks[i].size + Tr[l].inc)
              /\ last'.inplace
         /\ chunks'[1].size = Tr[l].hsize
         /\ steps' = steps
TClear == IsEvent("clear") /\ Clear /\ steps' = steps
\* a new pool (new execution): back to the initial state
TReset == /\ IsEvent("reset")
          /\ chunks' = << [id |-> 0, cap |-> UserBuf, size |-> 0, user |-> TRUE] >>
          /\ blocks' = <<>> /\ mem' = <<>> /\ refcount' = 1 /\ minchunk' = ChunkCap
          /\ nextid' = 1 /\ nexttag' = 1 /\ last' = [op |-> "init"] /\ steps' = steps

TNext == TMalloc \/ TGrow \/ TClear \/ TReset
TSpec == TInit /\ [][TNext]_<<vars, l>>
Accepted == TLCGet("stats").diameter - 1 = Len(Tr)
=============================================================================
