CONSTANTS
  Sigma = {91, 93, 123, 125, 44, 58, 34, 49, 97, 32}
  MaxLen = 4
  MinCap = 2
  CheckPush = TRUE
  Bulk = FALSE
INIT Init
NEXT Next
INVARIANT Inv
CHECK_DEADLOCK FALSE
