------------------------------ MODULE Trace_Num ------------------------------
(***************************************************************************)
(* Validation of numeric events recorded from the implementation (C04,     *)
(* C07, C08, and every double met while replaying text corpora).  Events   *)
(* are independent calls of pure functions, so each event is one initial   *)
(* state; an event is accepted iff the relation the property states holds. *)
(* Rejected events are written to IOEnv.OUT (one JSON line each) and make  *)
(* the invariant Accepted fail under -continue, so TLC's own verdict and   *)
(* the reject list agree.                                                  *)
(*                                                                         *)
(* Event kinds (field k):                                                  *)
(*  "parse": text decimal (neg, d, e10) was stored as the double w         *)
(*           (4 x 16-bit words) -> Rounding!RoundsTo                       *)
(*  "pinf" : text decimal was rejected with the infinity error             *)
(*           -> Rounding!Overflows                                         *)
(***************************************************************************)
EXTENDS Rounding, Json, CSV, IOUtils, TLC
VARIABLE i

Tr == ndJsonDeserialize(IOEnv.TRACE)

Holds(ev) ==
  CASE ev.k = "parse" -> RoundsTo(ev.neg = 1, ev.d, ev.e, ev.w)
    [] ev.k = "pinf"  -> Overflows(ev.d, ev.e)
    [] OTHER -> FALSE

Init == i \in 1..Len(Tr)
Next == UNCHANGED i
Accepted == Holds(Tr[i]) \/ (CSVWrite("%1$s", <<ToJson([idx |-> i, ev |-> Tr[i]])>>, IOEnv.OUT) /\ FALSE)
=============================================================================
