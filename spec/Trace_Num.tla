------------------------------ MODULE Trace_Num ------------------------------
(***************************************************************************)
(* Validation of numeric events recorded from the implementation (C04,     *)
(* C07, C08, and every double met while replaying text corpora).  Events   *)
(* are independent calls of pure functions, so each event is one initial   *)
(* state; an event is accepted iff the relation the property states holds. *)
(* Rejected events are written to IOEnv.OUT (one JSON line each) and make  *)
(* the invariant Accepted fail under -continue, so TLC's own verdict and   *)
(* the reject list agree.                                                  *)
(*                                                                         *)
(* Event kinds (field k):                                                  *)
(*  "parse": text decimal (neg, d, e10) was stored as the double w         *)
(*           (4 x 16-bit words) -> Rounding!RoundsTo                       *)
(*  "pinf" : text decimal was rejected with the infinity error             *)
(*           -> Rounding!Overflows                                         *)
(*  "numtext": the number spelling t (bytes) was parsed by the library to  *)
(*           res \in {"uint","sint","double","err"} with magnitude digits   *)
(*           dg (integers), words w (doubles) or error code: everything is *)
(*           decided from the text by NumberLex / Rounding (C04)           *)
(*  "ftoa" : the double w was printed as the bytes out (C07): JSON number  *)
(*           with a fraction or exponent, at most 32 bytes, sign kept,     *)
(*           and Shortest!IsShortestRoundTrip                              *)
(*  "itoa" : the 64-bit integer (neg, magnitude digits dg) was printed as  *)
(*           out (C08): optional '-', then exactly the digits              *)
(*  "quote": the byte string in was quoted as out (C09):                   *)
(*           Render!IsQuotingOf                                            *)
(*  "ser"  : a document whose accessor walk is the value v was serialised  *)
(*           as the bytes out (C06): the recogniser JsonText accepts out   *)
(*           and what out denotes is v, number kinds included (a double    *)
(*           is given by its bit pattern w: out's spelling must round to   *)
(*           exactly that double)                                          *)
(***************************************************************************)
EXTENDS Render, Shortest, Json, CSV, IOUtils
VARIABLE i

Tr == ndJsonDeserialize(IOEnv.TRACE)

NumTextOk(ev) ==
  LET n == LexNum(ev.t, 1) IN
  /\ n.ok /\ n.i = Len(ev.t) + 1
  /\ LET v == NumVal(n.v) IN
     CASE v.kind = "uint"    -> ev.res = "uint" /\ ev.dg = v.d
       [] v.kind = "sint"    -> ev.res = "sint" /\ ev.dg = v.d
       [] v.kind = "negzero" -> ev.res \in {"uint", "sint"} /\ ev.dg = <<0>>
       [] OTHER -> IF NumOverflows(n.v) THEN ev.res = "err" /\ ev.code = 3
                   ELSE ev.res = "double" /\ RoundsTo(v.neg, v.d, v.e, ev.w)

FtoaOk(ev) ==
  LET n == LexNum(ev.out, 1) IN
  /\ Len(ev.out) <= 32
  /\ n.ok /\ n.i = Len(ev.out) + 1                 \* a JSON number, nothing else
  /\ n.v.hasf \/ n.v.hase                          \* reads back as a double
  /\ n.v.neg = WSign(ev.w)                         \* -0.0 keeps its sign
  /\ IsShortestRoundTrip(ev.w, NumD(n.v), NumE(n.v))

ItoaOk(ev) == ev.out = (IF ev.neg = 1 THEN <<45>> ELSE <<>>) \o [j \in 1..Len(ev.dg) |-> 48 + ev.dg[j]]

RECURSIVE SameVal(_, _)
SameVal(p, v) ==
  CASE v.k \in {"null", "true", "false"} -> p.k = v.k
    [] v.k = "str"  -> p.k = "str" /\ p.b = v.b
    [] v.k = "uint" -> p.k = "num" /\ p.kind = "uint" /\ p.d = v.d
    [] v.k = "sint" -> p.k = "num" /\ p.kind = "sint" /\ p.d = v.d
    [] v.k = "real" -> p.k = "num" /\ p.kind = "real" /\ RoundsTo(p.neg, p.d, p.e, v.w)
    [] v.k = "arr"  -> p.k = "arr" /\ Len(p.e) = Len(v.e) /\ \A j \in 1..Len(v.e) : SameVal(p.e[j], v.e[j])
    [] v.k = "obj"  -> p.k = "obj" /\ Len(p.m) = Len(v.m)
                       /\ \A j \in 1..Len(v.m) : p.m[j][1] = v.m[j][1] /\ SameVal(p.m[j][2], v.m[j][2])
    [] OTHER -> FALSE
SerOk(ev) == LET r == ParseText(ev.out) IN r.ok /\ SameVal(r.v, ev.v)

Holds(ev) ==
  CASE ev.k = "parse" -> RoundsTo(ev.neg = 1, ev.d, ev.e, ev.w)
    [] ev.k = "pinf"  -> Overflows(ev.d, ev.e)
    [] ev.k = "numtext" -> NumTextOk(ev)
    [] ev.k = "ftoa" -> FtoaOk(ev)
    [] ev.k = "itoa" -> ItoaOk(ev)
    [] ev.k = "quote" -> IsQuotingOf(ev.out, ev["in"])
    [] ev.k = "ser" -> SerOk(ev)
    [] OTHER -> FALSE

Init == i \in 1..Len(Tr)
Next == UNCHANGED i
Accepted == Holds(Tr[i]) \/ (CSVWrite("%1$s", <<ToJson([idx |-> i, ev |-> Tr[i]])>>, IOEnv.OUT) /\ FALSE)
=============================================================================
