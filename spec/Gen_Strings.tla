---------------------------- MODULE Gen_Strings -----------------------------
(***************************************************************************)
(* String-literal corpus for C05 (and C01/C02): literals built as          *)
(*    quote  filler^a  item1  filler^b  item2  filler^c  quote             *)
(* with items ranging over every escape kind, raw special bytes and        *)
(* ill-formed escapes, and a, b, c over offsets that walk every item       *)
(* across the 16- and 32-byte block boundaries of the in-place decoder.    *)
(* Each literal is placed as a root value, an array element, an object     *)
(* key and an object value; the R-model (JsonText) gives the verdict, the  *)
(* decoded bytes and the fault class.                                      *)
(* One initial state per case.                                             *)
(***************************************************************************)
EXTENDS JsonText, Json, CSV, IOUtils
CONSTANTS AS, BS, CS, Pairs     \* offset sets; Pairs = TRUE: two items, FALSE: item2 fixed to "none"
VARIABLES i1, i2, a, b, c, cx

Items == <<
  <<>>,                                   \* 1 none
  <<92,110>>, <<92,34>>, <<92,92>>, <<92,47>>, <<92,98>>, <<92,116>>,     \* 2-7   \n \" \\ \/ \b \t
  <<92,117,48,48,52,49>>,                 \* 8   A
  <<92,117,48,48,101,57>>,                \* 9   é  (2-byte UTF-8)
  <<92,117,50,48,65,67>>,                 \* 10  €  (3-byte UTF-8, upper-case hex)
  <<92,117,100,56,51,100,92,117,100,101,48,48>>,   \* 11 surrogate pair
  <<92,117,48,48,48,48>>,                 \* 12  \u0000
  <<195,169>>, <<127>>, <<255>>,          \* 13-15 raw high bytes / DEL
  \* ill-formed
  <<92,113>>,                             \* 16  \q
  <<1>>, <<31>>, <<0>>, <<10>>,           \* 17-20 raw control bytes
  <<92,117,49,50,71,52>>,                 \* 21  \u12G4
  <<92,117,100,56,48,48>>,                \* 22  lone high surrogate
  <<92,117,100,99,48,48>>,                \* 23  lone low surrogate
  <<92,117,100,56,48,48,92,117,48,48,52,49>>,      \* 24 high + non-surrogate \u
  <<92,117,100,56,48,48,92,110>>,         \* 25  high + other escape
  <<92,85,48,48,52,49>>                   \* 26  \U0041 (wrong case of the escape letter)
>>

Fill(n) == [j \in 1..n |-> 97 + (j % 23)]
SLit == <<34>> \o Fill(a) \o Items[i1] \o Fill(b) \o Items[i2] \o Fill(c) \o <<34>>

Text ==
  CASE cx = "root" -> SLit
    [] cx = "elem" -> <<91, 49, 44>> \o SLit \o <<93>>
    [] cx = "key"  -> <<123>> \o SLit \o <<58, 49, 125>>
    [] cx = "val"  -> <<123, 34, 107, 34, 58>> \o SLit \o <<44, 34, 122, 34, 58, 48, 125>>

Init == /\ i1 \in DOMAIN Items /\ i2 \in (IF Pairs THEN DOMAIN Items ELSE {1})
        /\ a \in AS /\ b \in (IF Pairs THEN BS ELSE {0}) /\ c \in CS
        /\ cx \in {"root", "elem", "key", "val"}
Next == UNCHANGED <<i1, i2, a, b, c, cx>>

\* (bound variables force one evaluation of the text and of its parse; LET definitions are re-evaluated at each use)
CaseOf(x, r, d) ==
  [t |-> x, ok |-> r.ok, why |-> r.why, at |-> r.i - 1, scope |-> FaultScope(x, r.why), v |-> r.v,
   cls |-> cx, lit |-> SLit, litok |-> d.ok, litb |-> d.b]
Case == CaseOf(Text, ParseText(Text), DecodeString(SLit))
Emit == \A x \in {Text} : \A r \in {ParseText(x)} : \A d \in {DecodeString(SLit)} :
  CSVWrite("%1$s", <<ToJson(CaseOf(x, r, d))>>, IOEnv.OUT)

\* the text is accepted exactly when the literal decodes (the contexts add no other fault), and
\* the outcome for a literal does not depend on where it sits
ContextIndependent == ParseText(Text).ok = DecodeString(SLit).ok
=============================================================================
