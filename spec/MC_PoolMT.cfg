CONSTANTS
  Threads <- T2
  Prog <- P2
  Locked = TRUE
  ChunkCap = 32
SPECIFICATION FairSpec
INVARIANT SafetyInv
PROPERTY Termination
CHECK_DEADLOCK FALSE
