CONSTANTS
  Sigma = {123,125,91,93,44,58,34,92,32,10,48,49,45,46,101,97}
  FullLen = 3
  MaxLen = 6
  MinEmit = 0
INIT Init
NEXT Next
INVARIANT Emit
INVARIANT ShiftRule
CHECK_DEADLOCK FALSE
