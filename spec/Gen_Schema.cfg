CONSTANTS MaxNodes = 3 MaxNodes2 = 3 Pool = 4 Layouts = {0} Wide = FALSE
INIT InitS
NEXT NextS
INVARIANT EmitS
INVARIANT Idempotent
CHECK_DEADLOCK FALSE
