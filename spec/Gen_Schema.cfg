CONSTANTS MaxNodes = 2 MaxNodes2 = 2 Pool = 4 Layouts = {0} Wide = FALSE SMode = "wide3" LayE = 0 LayV = 2
INIT InitS
NEXT NextS
INVARIANT EmitS
INVARIANT Idempotent
CHECK_DEADLOCK FALSE
