CONSTANTS
  VecLen = 32
  StrSlack = 35
  NumReserve = 33
  Docs <- MCDocs
  Caps <- MCCaps
SPECIFICATION Spec
INVARIANT NoOverflow
INVARIANT SizeSane
CHECK_DEADLOCK FALSE
