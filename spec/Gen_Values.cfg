CONSTANTS MaxNodes = 3 Pool = 1 Layouts = {0, 2} Wide = FALSE
INIT Init
NEXT Next
INVARIANT Emit
INVARIANT SpecRoundTrip
CHECK_DEADLOCK FALSE
