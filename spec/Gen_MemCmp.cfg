CONSTANTS Mode = "cmp" SS = {0, 1, 5, 31, 32, 33, 65}
INIT Init
NEXT Next
INVARIANT Emit
INVARIANT LessIsStrictOrder
CHECK_DEADLOCK FALSE
