CONSTANTS
  KeyPool <- MCKeys
  Scalars <- MCScalars
  StrBytes <- MCStr
  Texts <- MCTexts
  MaxSize = 2
  MaxNodes = 3
INIT SInit
NEXT SNext
INVARIANT SInv
CONSTRAINT Constraint
VIEW SView
CHECK_DEADLOCK FALSE
