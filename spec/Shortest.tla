------------------------------ MODULE Shortest ------------------------------
(***************************************************************************)
(* Shortest round-tripping decimal of a finite double (R-model for C07),   *)
(* as exact relations on BigNat:                                           *)
(*   ReadsBack(w, D, E)   the decimal D*10^E rounds (nearest-even) to w    *)
(*   NoShorter(w, D, E)   no decimal with fewer significant digits lies in *)
(*                        the rounding interval of w                       *)
(*   Closest(w, D, E)     among decimals with as many digits as D that     *)
(*                        lie in the interval, none is closer to the exact *)
(*                        value of w                                       *)
(* D is a digit sequence (most significant first, any leading/trailing     *)
(* zeros), E an integer; w = four 16-bit words.  The sign is handled by    *)
(* the caller.                                                             *)
(***************************************************************************)
EXTENDS Rounding

RECURSIVE StripTrailZ(_)
StripTrailZ(d) == IF d # <<>> /\ d[Len(d)] = 0 THEN StripTrailZ(SubSeq(d, 1, Len(d) - 1)) ELSE d
\* significant digits and matching exponent
SigD(D) == StripTrailZ(StripZ(D))
SigE(D, E) == E + (Len(StripZ(D)) - Len(SigD(D)))

ReadsBack(w, D, E) == WIsFinite(w) /\ (IF DecIsZero(D) THEN WIsZero(w) ELSE ~WIsZero(w) /\ InInterval(D, E, w))

\* D' with its last digit dropped: floor(D'/10) as a digit sequence (<<0>> if one digit)
DropLast(d) == IF Len(d) <= 1 THEN <<0>> ELSE SubSeq(d, 1, Len(d) - 1)
PlusOne(d) == ToDigits(AddSmall(FromDigits(d), 1))

NoShorter(w, D, E) ==
  LET d == SigD(D) e == SigE(D, E) IN
  IF Len(d) <= 1 THEN TRUE
  ELSE LET c1 == DropLast(d) c2 == PlusOne(c1) IN
       /\ ~(c1 # <<0>> /\ InInterval(c1, e + 1, w))
       /\ ~InInterval(c2, e + 1, w)

\* |v - x| as a scaled BigNat, with v = d*10^e, x = m*2^q, common scale 10^max(-e,0) * 2^max(-q,0)
Dist(d, e, w) ==
  LET m == WMant(w) q == WQ(w)
      V == Mul(Mul(FromDigits(d), IF e >= 0 THEN Pow10(e) ELSE <<1>>), IF q < 0 THEN Pow2(-q) ELSE <<1>>)
      X == Mul(Mul(m, IF q >= 0 THEN Pow2(q) ELSE <<1>>), IF e < 0 THEN Pow10(-e) ELSE <<1>>)
  IN IF Cmp(V, X) >= 0 THEN Sub(V, X) ELSE Sub(X, V)

Closest(w, D, E) ==
  LET d == SigD(D) e == SigE(D, E)
      up == PlusOne(d)
      dn == IF FromDigits(d) = <<>> THEN <<0>> ELSE ToDigits(Sub(FromDigits(d), <<1>>))
      mine == Dist(d, e, w)
  IN /\ (Len(up) = Len(d) /\ InInterval(up, e, w)) => Le(mine, Dist(up, e, w))
     /\ (dn # <<0>> /\ Len(StripZ(dn)) = Len(d) /\ InInterval(dn, e, w)) => Le(mine, Dist(dn, e, w))

IsShortestRoundTrip(w, D, E) == ReadsBack(w, D, E) /\ NoShorter(w, D, E) /\ Closest(w, D, E)
=============================================================================
