------------------------------ MODULE Gen_Schema ------------------------------
(***************************************************************************)
(* C19 / C20: merging a JSON text into an existing value.                  *)
(*                                                                         *)
(* R-models (on denoted values, duplicate-free objects):                   *)
(*  SchemaMerge(E, V) - ParseSchema: where both sides are non-empty        *)
(*     objects keep E's members in order, each declared key that V         *)
(*     provides replaced by the merge of the two values, keys V omits      *)
(*     unchanged, undeclared keys ignored; in every other case V whole.    *)
(*  LazyMerge(T, S)   - UpdateLazy: where both sides are objects and T is  *)
(*     non-empty, T's members in order with matched keys merged            *)
(*     recursively, then S's unmatched members in order; otherwise S.      *)
(*                                                                         *)
(* Generator: every pair of duplicate-free syntax trees up to a node       *)
(* bound (pool 4: keys a b c and an escaped spelling of a), rendered       *)
(* minified; expected value of both merges.                                *)
(***************************************************************************)
EXTENDS Gen_Values, JsonValue
CONSTANTS MaxNodes2, SMode, LayE, LayV   \* SMode: "pairs" | "wide3" | "nest2" | "esckeys" | "widearr"; whitespace layouts of the two texts
VARIABLES tree2

IsNEObj(v) == v.k = "obj" /\ Len(v.m) > 0
KeyIdx(v, key) == LET ix == {i \in 1..Len(v.m) : v.m[i][1] = key} IN IF ix = {} THEN 0 ELSE Min(ix)

RECURSIVE SchemaMerge(_, _)
SchemaMerge(E, V) ==
  IF IsNEObj(E) /\ IsNEObj(V)
  THEN [k |-> "obj", m |-> [i \in 1..Len(E.m) |->
          LET j == KeyIdx(V, E.m[i][1]) IN
          IF j = 0 THEN E.m[i] ELSE <<E.m[i][1], SchemaMerge(E.m[i][2], V.m[j][2])>>]]
  ELSE V

RECURSIVE LazyMerge(_, _)
LazyMerge(Tg, Src) ==
  IF IsNEObj(Tg) /\ Src.k = "obj"
  THEN LET merged == [i \in 1..Len(Tg.m) |->
                        LET j == KeyIdx(Src, Tg.m[i][1]) IN
                        IF j = 0 THEN Tg.m[i] ELSE <<Tg.m[i][1], LazyMerge(Tg.m[i][2], Src.m[j][2])>>]
           extra == SelectSeq(Src.m, LAMBDA x : KeyIdx(Tg, x[1]) = 0)
       IN [k |-> "obj", m |-> merged \o extra]
  ELSE Src

RECURSIVE DupFree(_)
DupFree(v) ==
  CASE v.k = "arr" -> \A i \in 1..Len(v.e) : DupFree(v.e[i])
    [] v.k = "obj" -> /\ \A i, j \in 1..Len(v.m) : i # j => v.m[i][1] # v.m[j][1]
                      /\ \A i \in 1..Len(v.m) : DupFree(v.m[i][2])
    [] OTHER -> TRUE

Small == UNION {VN[k] : k \in 1..(IF MaxNodes2 < MaxNodes THEN MaxNodes2 ELSE MaxNodes)}
DenT(t) == ParseText(RenderL(t, 0)).v

\* "wide3": an existing object with three declared keys whose values range over scalars and small objects, against
\* text objects that provide any subset of them (in order or reversed) plus an undeclared key: nested update followed
\* by more declared keys, at a size the exhaustive pair enumeration does not reach
K3 == << <<34,97,34>>, <<34,98,34>>, <<34,99,34>> >>
Vals3 == {Tok(N1), Obj(<<>>), Obj(<< <<K3[1], Tok(NULL)>> >>), Obj(<< <<K3[1], Tok(N1)>>, <<K3[2], Tok(SA)>> >>), Arr(<<Tok(N1)>>)}
Vals3E == {Tok(N1), Obj(<<>>), Obj(<< <<K3[1], Tok(NULL)>> >>), Obj(<< <<K3[1], Tok(N1)>>, <<K3[2], Tok(SA)>> >>)}
Vals3V == {Tok(N1), Obj(<< <<K3[1], Tok(NULL)>> >>), Obj(<< <<K3[2], Tok(SA)>>, <<K3[1], Tok(N1)>> >>)}
Wide3E == {Obj(<< <<K3[1], x>>, <<K3[2], y>>, <<K3[3], z>> >>) : x \in Vals3E, y \in Vals3E, z \in Vals3E}
Sub3 == {s \in SUBSET {1, 2, 3} : s # {}}
Pick(s, f, rev) == LET seq == IF rev THEN <<3, 2, 1>> ELSE <<1, 2, 3>>
                       sel == SelectSeq(seq, LAMBDA i : i \in s)
                   IN [j \in 1..Len(sel) |-> <<K3[sel[j]], f[sel[j]]>>]
Wide3V == {Obj(Pick(s, f, rev) \o (IF und THEN << <<<<34,122,34>>, Obj(<< <<K3[1], Tok(N1)>> >>)>> >> ELSE <<>>)) :
             s \in Sub3, f \in [{1, 2, 3} -> Vals3V], rev \in BOOLEAN, und \in BOOLEAN}
\* "nest2": an object nested in a declared member, followed (or preceded) by another declared member: the existing inner
\* object has two members whose values range over a scalar, an empty object and an array; the text's inner object provides
\* any non-empty subset of them, in either order, each as a scalar, an object or an array (so a member is updated in
\* place, or rebuilt from a container of the text, in the middle of an update of the enclosing objects)
KD == <<34,100,34>>
VE2 == {Tok(N1), Obj(<<>>), Arr(<<Tok(N1)>>), Obj(<< <<K3[1], Tok(N1)>> >>)}
VV2 == {Tok(N1), Obj(<< <<K3[1], Tok(NULL)>> >>), Arr(<<Tok(N1)>>), Obj(<< <<K3[2], Tok(SA)>>, <<K3[1], Tok(N1)>> >>)}
InnerE2 == {Obj(<< <<K3[1], x>>, <<K3[2], y>> >>) : x \in VE2, y \in VE2}
Pick2(sx, f, rev) == LET seq == IF rev THEN <<2, 1>> ELSE <<1, 2>>
                         sel == SelectSeq(seq, LAMBDA i : i \in sx)
                     IN [j \in 1..Len(sel) |-> <<K3[sel[j]], f[sel[j]]>>]
InnerV2 == {Obj(Pick2(sx, f, rev)) : sx \in {{1}, {2}, {1, 2}}, f \in [{1, 2} -> VV2], rev \in BOOLEAN}
Nest2E == {Obj(<< <<KD, i>>, <<K3[3], Tok(N1)>> >>) : i \in InnerE2} \cup {Obj(<< <<K3[3], Tok(N1)>>, <<KD, i>> >>) : i \in InnerE2}
Nest2V == {Obj(<< <<KD, i>>, <<K3[3], Tok(SA)>> >>) : i \in InnerV2} \cup {Obj(<< <<K3[3], Tok(SA)>>, <<KD, i>> >>) : i \in InnerV2}
\* "esckeys": member names of every length whose spelling contains an escape at every position relative to the 16/32/64-byte
\* blocks of the scanners, matched against the same name spelled differently (keys are matched by decoded value)
FillK(n) == [i \in 1..n |-> 107]
EscPairs == << << <<92,117,48,48,52,49>>, <<65>> >>,          \* \u0041  vs  A
               << <<65>>, <<92,117,48,48,52,49>> >>,
               << <<92,110>>, <<92,117,48,48,48,97>> >>,      \* \n  vs  \u000a
               << <<92,34>>, <<92,117,48,48,50,50>> >> >>     \* \"  vs  \u0022
EscOffs == {0, 1, 14, 15, 16, 17, 30, 31, 32, 33, 47, 48, 62, 63, 64, 65}
KeyLit(a, mid, b) == <<34>> \o FillK(a) \o mid \o FillK(b) \o <<34>>
EscE == {Obj(<< <<KeyLit(a, EscPairs[j][1], b), Tok(N1)>>, <<K3[2], Tok(SA)>> >>) : a \in EscOffs, b \in EscOffs, j \in 1..Len(EscPairs)}
EscV(a, b, j) == Obj(<< <<KeyLit(a, EscPairs[j][2], b), Tok(N12)>>, <<K3[3], Tok(NULL)>> >>)
\* "widearr": top-level arrays with many elements (the lazy parser's node stack grows past its initial capacity)
WArr(n) == Arr([i \in 1..n |-> Tok(IF i % 2 = 0 THEN N1 ELSE SA)])
WideArrT == {WArr(n) : n \in {0, 1, 15, 16, 17, 33, 70}} \cup {Obj(<< <<K3[1], WArr(17)>> >>), Tok(N1), Obj(<< <<K3[1], Tok(N1)>> >>)}

InitS == /\ layout = 0
         /\ CASE SMode = "pairs" -> /\ tree \in {t \in AllTrees : DupFree(DenT(t))}
                                    /\ tree2 \in {t \in Small : DupFree(DenT(t))}
              [] SMode = "wide3" -> tree \in Wide3E /\ tree2 \in Wide3V
              [] SMode = "nest2" -> tree \in Nest2E /\ tree2 \in Nest2V
              [] SMode = "esckeys" -> \E a \in EscOffs, b \in EscOffs, j \in 1..Len(EscPairs) :
                                        /\ tree = Obj(<< <<KeyLit(a, EscPairs[j][1], b), Tok(N1)>>, <<K3[2], Tok(SA)>> >>)
                                        /\ tree2 = EscV(a, b, j)
              [] SMode = "widearr" -> tree \in WideArrT /\ tree2 \in WideArrT
NextS == UNCHANGED <<tree, tree2, layout>>

EmitS == \A E \in {DenT(tree)} : \A V \in {DenT(tree2)} : \A M \in {SchemaMerge(E, V)} :
  CSVWrite("%1$s", <<ToJson([e |-> RenderL(tree, LayE), v |-> RenderL(tree2, LayV),
                             schema |-> M, lazy |-> LazyMerge(E, V),
                             schema2 |-> SchemaMerge(M, V)])>>, IOEnv.OUT)
\* merging the same text again changes nothing
Idempotent == \A E \in {DenT(tree)} : \A V \in {DenT(tree2)} : \A M \in {SchemaMerge(E, V)} : \A L \in {LazyMerge(E, V)} :
  SchemaMerge(M, V) = M /\ LazyMerge(L, V) = L
=============================================================================
