------------------------------ MODULE Gen_Schema ------------------------------
(***************************************************************************)
(* C19 / C20: merging a JSON text into an existing value.                  *)
(*                                                                         *)
(* R-models (on denoted values, duplicate-free objects):                   *)
(*  SchemaMerge(E, V) - ParseSchema: where both sides are non-empty        *)
(*     objects keep E's members in order, each declared key that V         *)
(*     provides replaced by the merge of the two values, keys V omits      *)
(*     unchanged, undeclared keys ignored; in every other case V whole.    *)
(*  LazyMerge(T, S)   - UpdateLazy: where both sides are objects and T is  *)
(*     non-empty, T's members in order with matched keys merged            *)
(*     recursively, then S's unmatched members in order; otherwise S.      *)
(*                                                                         *)
(* Generator: every pair of duplicate-free syntax trees up to a node       *)
(* bound (pool 4: keys a b c and an escaped spelling of a), rendered       *)
(* minified; expected value of both merges.                                *)
(***************************************************************************)
EXTENDS Gen_Values, JsonValue
CONSTANTS MaxNodes2
VARIABLES tree2

IsNEObj(v) == v.k = "obj" /\ Len(v.m) > 0
KeyIdx(v, key) == LET ix == {i \in 1..Len(v.m) : v.m[i][1] = key} IN IF ix = {} THEN 0 ELSE Min(ix)

RECURSIVE SchemaMerge(_, _)
SchemaMerge(E, V) ==
  IF IsNEObj(E) /\ IsNEObj(V)
  THEN [k |-> "obj", m |-> [i \in 1..Len(E.m) |->
          LET j == KeyIdx(V, E.m[i][1]) IN
          IF j = 0 THEN E.m[i] ELSE <<E.m[i][1], SchemaMerge(E.m[i][2], V.m[j][2])>>]]
  ELSE V

RECURSIVE LazyMerge(_, _)
LazyMerge(Tg, Src) ==
  IF IsNEObj(Tg) /\ Src.k = "obj"
  THEN LET merged == [i \in 1..Len(Tg.m) |->
                        LET j == KeyIdx(Src, Tg.m[i][1]) IN
                        IF j = 0 THEN Tg.m[i] ELSE <<Tg.m[i][1], LazyMerge(Tg.m[i][2], Src.m[j][2])>>]
           extra == SelectSeq(Src.m, LAMBDA x : KeyIdx(Tg, x[1]) = 0)
       IN [k |-> "obj", m |-> merged \o extra]
  ELSE Src

RECURSIVE DupFree(_)
DupFree(v) ==
  CASE v.k = "arr" -> \A i \in 1..Len(v.e) : DupFree(v.e[i])
    [] v.k = "obj" -> /\ \A i, j \in 1..Len(v.m) : i # j => v.m[i][1] # v.m[j][1]
                      /\ \A i \in 1..Len(v.m) : DupFree(v.m[i][2])
    [] OTHER -> TRUE

Small == UNION {VN[k] : k \in 1..(IF MaxNodes2 < MaxNodes THEN MaxNodes2 ELSE MaxNodes)}
DenT(t) == ParseText(RenderL(t, 0)).v

InitS == /\ tree \in {t \in AllTrees : DupFree(DenT(t))}
         /\ tree2 \in {t \in Small : DupFree(DenT(t))}
         /\ layout = 0
NextS == UNCHANGED <<tree, tree2, layout>>

EmitS == LET E == DenT(tree) V == DenT(tree2) IN
  CSVWrite("%1$s", <<ToJson([e |-> RenderL(tree, 0), v |-> RenderL(tree2, 0),
                             schema |-> SchemaMerge(E, V), lazy |-> LazyMerge(E, V),
                             schema2 |-> SchemaMerge(SchemaMerge(E, V), V)])>>, IOEnv.OUT)
\* merging the same text again changes nothing
Idempotent == LET E == DenT(tree) V == DenT(tree2) IN
  SchemaMerge(SchemaMerge(E, V), V) = SchemaMerge(E, V) /\ LazyMerge(LazyMerge(E, V), V) = LazyMerge(E, V)
=============================================================================
