------------------------------ MODULE Gen_Sonic ------------------------------
(***************************************************************************)
(* Life-cycle behaviours of spec/Sonic.tla for replay into the real        *)
(* Document / DNode API (parse, mutate, dump, parse again ...): like       *)
(* Gen_Dom, with the expected Dump text of root after every step.          *)
(***************************************************************************)
EXTENDS MC_Sonic, Json, CSV, IOUtils
CONSTANT Depth
VARIABLE hist

CapOf(n) == IF n.t \in {"arr", "obj"} THEN n.cap ELSE -1
MapOf(n) == n.t = "obj" /\ n.map.on

StepRec == [a |-> last', r |-> rroot', x |-> raux', nl |-> nlive',
            rc |-> CapOf(root'), xc |-> CapOf(aux'), rm |-> MapOf(root'),
            eqdef |-> ~RHasDupDeep(rroot') /\ ~RHasDupDeep(raux'),
            eq |-> REq(rroot', raux'),
            d |-> DumpOf(rroot')]

GInit == SInit /\ hist = <<>>
GNext == /\ Len(hist) < Depth
         /\ SNext
         /\ Constraint'
         /\ hist' = Append(hist, StepRec)

EmitBeh == Len(hist) = Depth => CSVWrite("%1$s", <<ToJson([steps |-> hist])>>, IOEnv.OUT)
=============================================================================
