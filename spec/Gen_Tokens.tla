----------------------------- MODULE Gen_Tokens -----------------------------
(***************************************************************************)
(* G-tokens corpus: sequences of tokens (structural bytes, literals,       *)
(* string and number spellings, whitespace runs, and junk tokens that are  *)
(* almost-tokens).  Every sequence up to MaxTok tokens whose proper        *)
(* prefixes are all viable (could still become a JSON text) is emitted     *)
(* with the R-model verdict; a sequence whose first fault lies before its  *)
(* end is emitted but not extended.                                        *)
(***************************************************************************)
EXTENDS JsonText, Json, CSV, IOUtils
CONSTANTS MaxTok, Junk
VARIABLE toks

Spaces(n) == [i \in 1..n |-> 32]
Good == <<
  <<91>>, <<93>>, <<123>>, <<125>>, <<44>>, <<58>>,
  <<116,114,117,101>>, <<102,97,108,115,101>>, <<110,117,108,108>>,
  <<34,97,34>>, <<34,34>>, <<34,92,110,34>>, <<34,92,117,48,48,101,57,34>>,
  <<34,92,117,100,56,51,100,92,117,100,101,48,48,34>>,
  <<48>>, <<49>>, <<45,49>>, <<49,46,53>>, <<49,101,50>>, <<45,48>>,
  \* the largest finite double, and a decimal above it that still rounds down to it
  <<49,46,55,57,55,54,57,51,49,51,52,56,54,50,51,49,53,55,101,51,48,56>>,
  <<49,46,55,57,55,54,57,51,49,51,52,56,54,50,51,49,53,56,101,51,48,56>>,
  <<32>>, <<10>>, Spaces(65) >>
Bad == <<
  <<116,114,117>>, <<110,117,108>>, <<102,97,108,115>>, <<116,114,117,101,120>>,   \* tru nul fals truex
  <<48,49>>, <<49,46>>, <<45>>, <<46,53>>, <<49,101>>, <<43,49>>, <<49,46,101,49>>,   \* 01 1. - .5 1e +1 1.e1
  <<49,101,57,57,57>>, <<45,49,101,57,57,57>>,                                       \* 1e999 -1e999
  \* magnitudes that round to infinity, from just above the threshold to far above it
  <<49,46,55,57,55,54,57,51,49,51,52,56,54,50,51,49,53,57,101,51,48,56>>,            \* 1.7976931348623159e308
  <<49,46,56,101,51,48,56>>, <<50,101,51,48,56>>, <<45,50,101,51,48,56>>,            \* 1.8e308 2e308 -2e308
  <<48,46,49,56,101,51,48,57>>, <<51,46,53,57,101,51,48,56>>, <<49,101,51,48,57>>,   \* 0.18e309 3.59e308 1e309
  <<34,97>>, <<34,92,113,34>>, <<34,1,34>>, <<34,92,117,49,50,34>>,                  \* "a  "\q"  "<01>"  "\u12"
  <<34,92,117,100,56,48,48,34>>, <<34,92,117,100,99,48,48,34>>,                      \* lone high, lone low
  <<34,92,117,100,56,48,48,92,117,48,48,52,49,34>>,                                  \* high + non-low \u
  <<34,92,117,100,56,48,48,65,34>>,                                                  \* high + plain byte
  <<120>>, <<84,82,85,69>>, <<39,97,39>>, <<47,42,42,47>>, <<78,97,78>>,             \* x TRUE 'a' /**/ NaN
  <<0>>, <<127>>, <<255>>, <<12>>, <<11>> >>                                          \* NUL DEL 0xff FF VT

TokTab == IF Junk THEN Good \o Bad ELSE Good

RECURSIVE Flat(_)
Flat(s) == IF s = <<>> THEN <<>> ELSE TokTab[Head(s)] \o Flat(Tail(s))
Text == Flat(toks)

Init == toks = <<>>
Next == /\ Len(toks) < MaxTok
        /\ Viable(Text)
        /\ \E k \in DOMAIN TokTab : toks' = Append(toks, k)

\* (bound variables force one evaluation of the text and of its parse; LET definitions are re-evaluated at each use)
CaseOf(x, r) ==
  [t |-> x, ok |-> r.ok, why |-> r.why, at |-> r.i - 1, scope |-> FaultScope(x, r.why), v |-> r.v]
Case == CaseOf(Text, ParseText(Text))
Emit == \A x \in {Text} : \A r \in {ParseText(x)} : CSVWrite("%1$s", <<ToJson(CaseOf(x, r))>>, IOEnv.OUT)
=============================================================================
