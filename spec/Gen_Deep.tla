------------------------------ MODULE Gen_Deep ------------------------------
(***************************************************************************)
(* G-deep corpus: open^a body close^b tail, brackets / braces / mixed.     *)
(* These are the only inputs that reach the parser node-stack capacity     *)
(* rule cap = max(16, len/2 + 2) and its refusal path, and that strike an  *)
(* error with many open containers of each kind (C02, C01).                *)
(* One initial state per case; no transitions.                             *)
(***************************************************************************)
EXTENDS JsonText, Json, CSV, IOUtils
CONSTANTS MaxA, Step
VARIABLES a, b, shape, body, tail

Bodies == << <<>>, <<49>>, <<34, 120, 34>>, <<49, 44>>, <<91, 93, 44, 123, 125>>, <<34, 92, 113, 34>>,
            <<123, 34, 107, 34, 58, 49>>,                 \* {"k":1   (a key pushed when the node stack is exactly full)
            <<123, 34, 107, 34, 58, 123, 34, 106, 34>> >> \* {"k":{"j"
Tails  == << <<>>, <<32>>, <<120>>, <<44, 49>> >>
Shapes == {"arr", "obj", "mix"}
\* the same nestings with a sibling in front of every nested container ([7,[7,[ ...  {"p":1,"a":{"p":1,"a":{ ...): the
\* per-level element counters are live while deeper levels are parsed, for depths well beyond any small fixed capacity
PShapes == {"arrp", "objp", "mixp"}

RECURSIVE Rep(_, _)
Rep(s, n) == IF n = 0 THEN <<>> ELSE s \o Rep(s, n - 1)

KEYOPEN == <<123, 34, 97, 34, 58>>      \* {"a":
PKEYOPEN == <<123, 34, 112, 34, 58, 49, 44, 34, 97, 34, 58>>      \* {"p":1,"a":
PARROPEN == <<91, 55, 44>>                                          \* [7,
\* i-th opener / closer (1 = outermost) for a shape
IsArrAt(sh, i) == sh \in {"arr", "arrp"} \/ (sh \in {"mix", "mixp"} /\ i % 2 = 1)
IsP(sh) == sh \in PShapes
Opener(sh, n) == IF n = 0 THEN <<>> ELSE
  LET F[i \in 0..n] == IF i = 0 THEN <<>> ELSE F[i - 1] \o (IF IsArrAt(sh, i) THEN (IF IsP(sh) THEN PARROPEN ELSE <<91>>) ELSE (IF IsP(sh) THEN PKEYOPEN ELSE KEYOPEN)) IN F[n]
\* closers for the innermost 'm' of 'n' open containers
Closer(sh, n, m) == IF m = 0 THEN <<>> ELSE
  LET F[j \in 0..m] == IF j = 0 THEN <<>> ELSE F[j - 1] \o (IF n - j + 1 >= 1 /\ IsArrAt(sh, n - j + 1) THEN <<93>> ELSE <<125>>) IN F[m]

Text == Opener(shape, a) \o Bodies[body] \o Closer(shape, a, b) \o Tails[tail]

Grid == {x \in 0..MaxA : x % Step = 0 \/ x <= 3 \/ x \in {15, 16, 17, 31, 32, 33}}

\* depths for the prefixed shapes: around every power of two up to 128 (where a doubling structure regrows), and a stride
PDepths == {x \in 1..(2 * MaxA + 50) : x <= 3 \/ x % (4 * Step) = 0 \/ \E p \in {16, 32, 64, 128} : x >= p - 1 /\ x <= p + 2}
\* every opening depth 0..MaxA; closers: none, a few, all but one, all, one too many (b on the grid as well)
Init == \/ /\ a \in 0..MaxA /\ shape \in Shapes
           /\ b \in {x \in 0..(a + 1) : x <= 2 \/ x >= a - 1 \/ (x \in Grid /\ a \in Grid)}
           /\ body \in DOMAIN Bodies /\ tail \in DOMAIN Tails
        \/ /\ a \in PDepths /\ shape \in PShapes
           /\ b \in {a - 1, a, a + 1} /\ body \in {2, 3} /\ tail = 1
Next == UNCHANGED <<a, b, shape, body, tail>>

\* (bound variables force one evaluation of the text and of its parse; LET definitions are re-evaluated at each use)
CaseOf(x, r) ==
  [t |-> x, ok |-> r.ok, why |-> r.why, at |-> r.i - 1,
   scope |-> FaultScope(x, r.why), v |-> r.v]
Case == CaseOf(Text, ParseText(Text))
Emit == \A x \in {Text} : \A r \in {ParseText(x)} : CSVWrite("%1$s", <<ToJson(CaseOf(x, r))>>, IOEnv.OUT)
=============================================================================
