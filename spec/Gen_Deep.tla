------------------------------ MODULE Gen_Deep ------------------------------
(***************************************************************************)
(* G-deep corpus: open^a body close^b tail, brackets / braces / mixed.     *)
(* These are the only inputs that reach the parser node-stack capacity     *)
(* rule cap = max(16, len/2 + 2) and its refusal path, and that strike an  *)
(* error with many open containers of each kind (C02, C01).                *)
(* One initial state per case; no transitions.                             *)
(***************************************************************************)
EXTENDS JsonText, Json, CSV, IOUtils
CONSTANTS MaxA, Step
VARIABLES a, b, shape, body, tail

Bodies == << <<>>, <<49>>, <<34, 120, 34>>, <<49, 44>>, <<91, 93, 44, 123, 125>>, <<34, 92, 113, 34>>,
            <<123, 34, 107, 34, 58, 49>>,                 \* {"k":1   (a key pushed when the node stack is exactly full)
            <<123, 34, 107, 34, 58, 123, 34, 106, 34>> >> \* {"k":{"j"
Tails  == << <<>>, <<32>>, <<120>>, <<44, 49>> >>
Shapes == {"arr", "obj", "mix"}

RECURSIVE Rep(_, _)
Rep(s, n) == IF n = 0 THEN <<>> ELSE s \o Rep(s, n - 1)

KEYOPEN == <<123, 34, 97, 34, 58>>      \* {"a":
\* i-th opener / closer (1 = outermost) for a shape
IsArrAt(sh, i) == sh = "arr" \/ (sh = "mix" /\ i % 2 = 1)
Opener(sh, n) == IF n = 0 THEN <<>> ELSE
  LET F[i \in 0..n] == IF i = 0 THEN <<>> ELSE F[i - 1] \o (IF IsArrAt(sh, i) THEN <<91>> ELSE KEYOPEN) IN F[n]
\* closers for the innermost 'm' of 'n' open containers
Closer(sh, n, m) == IF m = 0 THEN <<>> ELSE
  LET F[j \in 0..m] == IF j = 0 THEN <<>> ELSE F[j - 1] \o (IF n - j + 1 >= 1 /\ IsArrAt(sh, n - j + 1) THEN <<93>> ELSE <<125>>) IN F[m]

Text == Opener(shape, a) \o Bodies[body] \o Closer(shape, a, b) \o Tails[tail]

Grid == {x \in 0..MaxA : x % Step = 0 \/ x <= 3 \/ x \in {15, 16, 17, 31, 32, 33}}

\* every opening depth 0..MaxA; closers: none, a few, all but one, all, one too many (b on the grid as well)
Init == /\ a \in 0..MaxA /\ shape \in Shapes
        /\ b \in {x \in 0..(a + 1) : x <= 2 \/ x >= a - 1 \/ (x \in Grid /\ a \in Grid)}
        /\ body \in DOMAIN Bodies /\ tail \in DOMAIN Tails
Next == UNCHANGED <<a, b, shape, body, tail>>

Case == LET x == Text r == ParseText(x) IN
  [t |-> x, ok |-> r.ok, why |-> r.why, at |-> r.i - 1,
   scope |-> FaultScope(x, r.why), v |-> r.v]
Emit == CSVWrite("%1$s", <<ToJson(Case)>>, IOEnv.OUT)
=============================================================================
