------------------------------- MODULE WriteBuf -------------------------------
(***************************************************************************)
(* I-model of the serializer's output side (C06, C09): the growable write  *)
(* buffer internal::Stack (stack.h:53-63, 146-157: Reserve, Grow) as the   *)
(* pair (top, cap), and SerializeImpl (serialize.h:31-191) as a machine    *)
(* that consumes the token stream of a document and, per token, first      *)
(* grows the buffer by a worst-case amount and then writes *unchecked*.    *)
(*                                                                         *)
(* Tokens: [t |-> "str", n |-> bytes, out |-> emitted length incl. quotes] *)
(*         [t |-> "num", out |-> 1..32]  [t |-> "lit", out |-> 5 | 6]      *)
(*         [t |-> "open"] [t |-> "close"] [t |-> "empty"]                  *)
(* The write *extent* of a token may exceed what it finally keeps: Quote   *)
(* stores whole vectors (VecLen bytes at the current position, 8 bytes per *)
(* escape), Push5_8 stores 8 bytes and keeps 5 or 6.                       *)
(*                                                                         *)
(* Invariant NoOverflow: every store lies inside [0, cap).                 *)
(* Parameters StrReserve(n) etc. are the growth contracts of the code; the *)
(* model is checked with the code's values, and MC_WriteBuf also shows     *)
(* that smaller contracts (e.g. 6n+3 for strings) are caught.              *)
(***************************************************************************)
EXTENDS Naturals, Integers, Sequences, TLC

CONSTANTS VecLen,        \* 32 (avx2) or 16 (sse)
          StrSlack,      \* code: 32 + 3  (string reservation = 6 n + StrSlack)
          NumReserve,    \* code: 33
          Docs,          \* set of token streams explored
          Caps           \* starting capacities explored (WriteBuffer(cap))
VARIABLES top, cap, toks, i, maxext, ok, single

vars == <<top, cap, toks, i, maxext, ok, single>>

Align8(n) == ((n + 7) \div 8) * 8
\* Stack::Reserve
Reserve(c, new) == IF new < c THEN c ELSE new
\* Stack::Grow(cnt): returns the new capacity
Grow(t, c, cnt) ==
  IF t + cnt >= c THEN (IF t + cnt > 2 * c THEN Reserve(c, (t + cnt) + (t + cnt) \div 2) ELSE Reserve(c, 2 * c))
  ELSE c

\* the largest index + 1 written while producing a token at position t
Extent(tk, t) ==
  CASE tk.t = "str"  -> (t + tk.out) + VecLen      \* the last vector / 8-byte escape store runs past the kept bytes
    [] tk.t = "num"  -> t + 32 + 1                 \* conversion routines may write up to 32, then the separator
    [] tk.t = "lit"  -> t + 8
    [] tk.t = "open" -> t + 1
    [] tk.t = "empty" -> t + 3
    [] tk.t = "close" -> t + 1                      \* after Pop(1): "]" and ","
Need(tk) ==
  CASE tk.t = "str" -> 6 * tk.n + StrSlack
    [] tk.t = "num" -> NumReserve
    [] tk.t = "lit" -> 8
    [] tk.t = "open" -> 3
    [] tk.t = "empty" -> 3
    [] tk.t = "close" -> 2
Kept(tk) ==
  CASE tk.t = "str" -> tk.out + 1   \* + ':' or ','
    [] tk.t = "num" -> tk.out + 1
    [] tk.t = "lit" -> tk.out
    [] tk.t = "open" -> 1
    [] tk.t = "empty" -> 3
    [] tk.t = "close" -> 1          \* Pop(1) removes the trailing ',', then "]" and "," : net +1

NodeCount(d) == Len(d)

Init == /\ toks \in Docs /\ cap \in Caps /\ top = 0 /\ i = 0 /\ maxext = 0 /\ ok = TRUE
        /\ single = FALSE
\* SerializeImpl prologue: wb.Clear(); wb.Reserve(estimate)
Start == /\ i = 0
         /\ top' = 0 /\ cap' = Reserve(cap, 18 * (IF toks[1].t = "open" THEN toks[1].size ELSE IF toks[1].t = "empty" THEN 0 ELSE 1) + 64)
         /\ single' = (toks[1].t # "open")
         /\ i' = 1 /\ UNCHANGED <<toks, maxext, ok>>
Emit == /\ i >= 1 /\ i <= Len(toks)
        /\ LET tk == toks[i]
               t0 == IF tk.t = "close" THEN top - 1 ELSE top        \* scope_end pops the separator first
               c2 == Grow(t0, cap, Need(tk))
               ext == IF tk.t = "close" THEN t0 + 2 ELSE Extent(tk, t0)
           IN /\ cap' = c2
              /\ top' = t0 + (IF tk.t = "close" THEN 2 ELSE Kept(tk))
              /\ maxext' = IF ext > maxext THEN ext ELSE maxext
              /\ ok' = (ok /\ ext <= c2 /\ t0 >= 0)
        /\ i' = i + 1 /\ UNCHANGED <<toks, single>>
\* doc_end: Pop(1 + is_single): every stream ends with the root's close token (a scalar or empty root goes through
\* scope_end as well and then drops the bracket again)
Finish == /\ i = Len(toks) + 1
          /\ top' = top - (IF single THEN 2 ELSE 1) /\ i' = i + 1
          /\ UNCHANGED <<cap, toks, maxext, ok, single>>
Next == Start \/ Emit \/ Finish
Spec == Init /\ [][Next]_vars

NoOverflow == ok
SizeSane == i = Len(toks) + 2 => top >= 0 /\ top <= cap
=============================================================================
