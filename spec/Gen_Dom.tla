------------------------------- MODULE Gen_Dom -------------------------------
(***************************************************************************)
(* Behaviours of Dom for replay into the real DNode API: run under         *)
(* `tlc -simulate`; the history variable hist records, per step, the       *)
(* action with its arguments and what the specification requires after it  *)
(* (R-state of root and aux, return value, equality verdict) plus the      *)
(* I-model's predictions (capacity, map, ledger) which are DRIFT-only.     *)
(* A behaviour is written to IOEnv.OUT when it reaches length Depth.       *)
(***************************************************************************)
EXTENDS MC_Dom, Json, CSV, IOUtils
CONSTANT Depth
VARIABLE hist

CapOf(n) == IF n.t \in {"arr", "obj"} THEN n.cap ELSE -1
MapOf(n) == n.t = "obj" /\ n.map.on

StepRec == [a |-> last', r |-> rroot', x |-> raux', nl |-> nlive',
            rc |-> CapOf(root'), xc |-> CapOf(aux'), rm |-> MapOf(root'),
            eqdef |-> ~RHasDupDeep(rroot') /\ ~RHasDupDeep(raux'),
            eq |-> REq(rroot', raux')]

GInit == Init /\ hist = <<>>
GNext == /\ Len(hist) < Depth
         /\ Next
         /\ Constraint'
         /\ hist' = Append(hist, StepRec)
GSpec == GInit /\ [][GNext]_<<vars, hist>>

\* Exhaustive (BFS, not simulation) behaviours of the object / lookup-map subsystem: a scripted prefix builds the object
\* {"a":7,"b":7,"k12":7} in root, then every sequence of FocusLen operations from the set below is explored: the
\* interleavings of CreateMap / DestroyMap with additions, removals (tail and non-tail), range erasure and reservation
\* that random walks over the whole API meet only by luck.
Script == << [op |-> "setobj", c |-> 0],
             [op |-> "set", c |-> -1, v |-> Uint(7)], [op |-> "addmember", c |-> 0, key |-> <<97>>, copy |-> TRUE],
             [op |-> "set", c |-> -1, v |-> Uint(7)], [op |-> "addmember", c |-> 0, key |-> <<98>>, copy |-> TRUE],
             [op |-> "set", c |-> -1, v |-> Uint(7)], [op |-> "addmember", c |-> 0, key |-> <<107, 49, 50>>, copy |-> TRUE] >>
FocusOps == {"addmember", "removemember", "createmap", "destroymap", "erasemember", "memberreserve", "set"}
FocusOk(l) == /\ l.op \in FocusOps
              /\ l.c = (IF l.op = "set" THEN -1 ELSE 0)
              /\ (IF l.op = "set" THEN l.v = Uint(7) ELSE TRUE)
              /\ (IF l.op = "addmember" THEN l.copy ELSE TRUE)
              /\ (IF l.op = "memberreserve" THEN l.n \in {0, 17} ELSE TRUE)
FNext == /\ Len(hist) < Depth
         /\ Next
         /\ Constraint'
         /\ (IF Len(hist) < Len(Script) THEN last' = Script[Len(hist) + 1] ELSE FocusOk(last'))
         /\ hist' = Append(hist, StepRec)

EmitBeh == Len(hist) = Depth => CSVWrite("%1$s", <<ToJson([steps |-> hist])>>, IOEnv.OUT)
=============================================================================
