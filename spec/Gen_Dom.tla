------------------------------- MODULE Gen_Dom -------------------------------
(***************************************************************************)
(* Behaviours of Dom for replay into the real DNode API: run under         *)
(* `tlc -simulate`; the history variable hist records, per step, the       *)
(* action with its arguments and what the specification requires after it  *)
(* (R-state of root and aux, return value, equality verdict) plus the      *)
(* I-model's predictions (capacity, map, ledger) which are DRIFT-only.     *)
(* A behaviour is written to IOEnv.OUT when it reaches length Depth.       *)
(***************************************************************************)
EXTENDS MC_Dom, Json, CSV, IOUtils
CONSTANT Depth
VARIABLE hist

CapOf(n) == IF n.t \in {"arr", "obj"} THEN n.cap ELSE -1
MapOf(n) == n.t = "obj" /\ n.map.on

StepRec == [a |-> last', r |-> rroot', x |-> raux', nl |-> nlive',
            rc |-> CapOf(root'), xc |-> CapOf(aux'), rm |-> MapOf(root'),
            eqdef |-> ~RHasDupDeep(rroot') /\ ~RHasDupDeep(raux'),
            eq |-> REq(rroot', raux')]

GInit == Init /\ hist = <<>>
GNext == /\ Len(hist) < Depth
         /\ Next
         /\ Constraint'
         /\ hist' = Append(hist, StepRec)
GSpec == GInit /\ [][GNext]_<<vars, hist>>

EmitBeh == Len(hist) = Depth => CSVWrite("%1$s", <<ToJson([steps |-> hist])>>, IOEnv.OUT)
=============================================================================
