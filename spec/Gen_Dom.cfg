CONSTANTS
  KeyPool <- SimKeys
  Scalars <- SimScalars
  StrBytes <- SimStr
  MaxSize = 20
  MaxNodes = 40
  Depth = 12
INIT GInit
NEXT GNext
INVARIANT EmitBeh
INVARIANT Inv
CHECK_DEADLOCK FALSE
