CONSTANTS
  ChunkCap = 32
  Adaptive = FALSE
  MaxChunkCap = 64
  UserBuf = 0
  Sizes = {0, 8, 9, 24, 40}
  MaxBlocks = 3
  MaxHandles = 2
  MaxSteps = 6
SPECIFICATION Spec
INVARIANT Inv
CONSTRAINT Constraint
VIEW View
CHECK_DEADLOCK FALSE
