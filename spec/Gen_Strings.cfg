CONSTANTS AS = {0,1,31,32} BS = {0,1} CS = {0} Pairs = FALSE
INIT Init
NEXT Next
INVARIANT Emit
INVARIANT ContextIndependent
CHECK_DEADLOCK FALSE
