CONSTANTS
  ChunkCap = 64
  Adaptive = FALSE
  MaxChunkCap = 256
  UserBuf = 0
  Sizes = {0, 1, 7, 8, 9, 16, 24, 40, 56, 64, 65, 72, 128, 200}
  MaxBlocks = 1000
  MaxHandles = 3
  MaxSteps = 1000
  Depth = 20
INIT GInit
NEXT GNext
INVARIANT EmitBeh
INVARIANT Inv
CHECK_DEADLOCK FALSE
