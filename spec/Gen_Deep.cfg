CONSTANTS MaxA = 40 Step = 4
INIT Init
NEXT Next
INVARIANT Emit
CHECK_DEADLOCK FALSE
