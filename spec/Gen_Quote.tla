------------------------------ MODULE Gen_Quote ------------------------------
(***************************************************************************)
(* Inputs for string quoting (C09): byte strings filler^a x filler^b y     *)
(* filler^c with x, y over byte classes (every byte value in Mode "all")   *)
(* and offsets walking the specials across 16/32-byte blocks and the       *)
(* tail; expected output = Render!Quote (the canonical quoting; the        *)
(* property-level relation Render!IsQuotingOf is what the recorded result  *)
(* is validated against).  SpecOk: the canonical quoting satisfies the     *)
(* relation and the 6n+2 bound.                                            *)
(***************************************************************************)
EXTENDS Render, Json, CSV, IOUtils
CONSTANTS Mode, AS, BS, CS
VARIABLES x, y, a, b, c

Special == {34, 92, 0, 1, 8, 9, 10, 12, 13, 31, 32, 47, 127, 128, 255}
Fill(n) == [j \in 1..n |-> 97 + (j % 23)]
In == Fill(a) \o (IF x >= 0 THEN <<x>> ELSE <<>>) \o Fill(b) \o (IF y >= 0 THEN <<y>> ELSE <<>>) \o Fill(c)

Init == CASE Mode = "all"   -> x \in 0..255 /\ y = -1 /\ a \in AS /\ b \in {0, 1} /\ c = 0
          [] Mode = "pairs" -> x \in Special /\ y \in Special /\ a \in AS /\ b \in BS /\ c \in CS
          [] Mode = "plain" -> x = -1 /\ y = -1 /\ a \in 0..140 /\ b = 0 /\ c = 0
          [] Mode = "runs"  -> x \in {34, 92, 1} /\ y = x /\ a \in AS /\ b = 0 /\ c \in CS   \* consecutive escapes
Next == UNCHANGED <<x, y, a, b, c>>

Emit == CSVWrite("%1$s", <<ToJson([in |-> In, q |-> Quote(In)])>>, IOEnv.OUT)
SpecOk == IsQuotingOf(Quote(In), In) /\ Len(Quote(In)) <= 6 * Len(In) + 2
=============================================================================
