------------------------------ MODULE Rounding ------------------------------
(***************************************************************************)
(* IEEE-754 binary64 round-to-nearest-even as an exact relation between a  *)
(* decimal  (neg, D, E)  meaning  (-1)^neg * D * 10^E   (D a digit         *)
(* sequence, most significant first; E an integer) and a bit pattern given *)
(* as four 16-bit words <<w3, w2, w1, w0>> (most significant first).       *)
(*                                                                         *)
(*   RoundsTo(neg, D, E, w)   the double w is the correctly rounded value  *)
(*   Overflows(D, E)          the magnitude rounds to infinity             *)
(*                                                                         *)
(* Everything is decided by integer cross-multiplication on BigNat.        *)
(* R-model for C04 (and for the "reads back" clause of C07).               *)
(***************************************************************************)
EXTENDS BigNat

RECURSIVE StripZ(_)
StripZ(d) == IF d # <<>> /\ d[1] = 0 THEN StripZ(Tail(d)) ELSE d   \* may become <<>>

\* decimal magnitude: value in [10^(Mag-1), 10^Mag) for D # 0
Mag(D, E) == Len(StripZ(D)) + E

DecIsZero(D) == StripZ(D) = <<>>

\* fields of the double
WSign(w) == w[1] >= 32768
WBexp(w) == (w[1] % 32768) \div 16
WFrac(w) == FromWords16(<<w[1] % 16, w[2], w[3], w[4]>>)
WIsFinite(w) == WBexp(w) # 2047
WIsZero(w) == WBexp(w) = 0 /\ w[1] % 16 = 0 /\ w[2] = 0 /\ w[3] = 0 /\ w[4] = 0

TwoP52 == Pow2(52)

\* m * 2^q with q = WQ
WMant(w) == IF WBexp(w) = 0 THEN WFrac(w) ELSE Add(TwoP52, WFrac(w))
WQ(w)    == (IF WBexp(w) = 0 THEN 1 ELSE WBexp(w)) - 1075

(***************************************************************************)
(* InInterval: the exact decimal lies in the rounding interval of m*2^q.   *)
(* In quarter-ulp units (2^(q-2)): lo4 = 4m-2 (4m-1 at a binade start,     *)
(* where the gap below is half as wide), hi4 = 4m+2; both ends belong to   *)
(* the interval iff m is even (ties-to-even).                              *)
(***************************************************************************)
InInterval(D, E, w) ==
  LET m    == WMant(w)
      q    == WQ(w)
      e2   == q - 2
      even == (IF m = <<>> THEN 0 ELSE m[1]) % 2 = 0
      binadeStart == WBexp(w) > 1 /\ WFrac(w) = <<>>
      m4   == MulSmall(m, 4)
      hi4  == AddSmall(m4, 2)
      \* for m = 0 there is no lower bound
      lo4  == IF m = <<>> THEN <<>>
              ELSE IF binadeStart THEN Sub(m4, <<1>>) ELSE Sub(m4, <<2>>)
      Dn   == FromDigits(D)
      Vn   == IF E >= 0 THEN Mul(Dn, Pow10(E)) ELSE Dn
      Vd   == IF E >= 0 THEN <<1>> ELSE Pow10(-E)
      A    == IF e2 < 0 THEN Mul(Vn, Pow2(-e2)) ELSE Vn
      S    == IF e2 >= 0 THEN Mul(Vd, Pow2(e2)) ELSE Vd
      cl   == Cmp(Mul(lo4, S), A)      \* lo ? v
      ch   == Cmp(A, Mul(hi4, S))      \* v ? hi
  IN (IF even THEN cl <= 0 ELSE cl < 0) /\ (IF even THEN ch <= 0 ELSE ch < 0)

\* threshold (2^54 - 1) * 2^970 : at or above it the value rounds to infinity
OvfThreshold == Mul(Sub(Pow2(54), <<1>>), Pow2(970))

Overflows(D, E) ==
  IF DecIsZero(D) THEN FALSE
  ELSE LET mg == Mag(D, E) IN
       IF mg <= 308 THEN FALSE
       ELSE IF mg >= 310 THEN TRUE
       ELSE LET Dn == FromDigits(D)
                A  == IF E >= 0 THEN Mul(Dn, Pow10(E)) ELSE Dn
                S  == IF E >= 0 THEN <<1>> ELSE Pow10(-E)
            IN Cmp(A, Mul(OvfThreshold, S)) >= 0

RoundsTo(neg, D, E, w) ==
  /\ WIsFinite(w)
  /\ WSign(w) = neg
  /\ IF DecIsZero(D) THEN WIsZero(w)
     ELSE LET mg == Mag(D, E) IN
          IF mg <= -324 THEN WIsZero(w)           \* v < 10^-324 < 2^-1075
          ELSE IF mg >= 310 THEN FALSE            \* overflows: no finite double
          ELSE ~Overflows(D, E) /\ InInterval(D, E, w)

=============================================================================
