----------------------------- MODULE Gen_MemCmp ------------------------------
(***************************************************************************)
(* Byte-range comparison (C14).                                            *)
(* R-model: MemEq (same length and bytes), MemSign (sign of the first      *)
(* difference, bytes compared as unsigned), KeyLess (the ordering the      *)
(* lookup map needs: memcmp on the common prefix, then length).            *)
(* Generator: pairs of ranges of length s that are equal or differ in      *)
(* exactly one or two positions (values on both sides of 0x80), and key    *)
(* sets for member lookup with and without the lookup map.                 *)
(***************************************************************************)
EXTENDS Naturals, Integers, Sequences, FiniteSets, FiniteSetsExt, Json, CSV, IOUtils
CONSTANTS Mode, SS
VARIABLES s, p, va, vb, p2

MemEq(a, b) == a = b
Diff(a, b) == {i \in 1..Len(a) : a[i] # b[i]}           \* equal lengths
MemSign(a, b) == IF Diff(a, b) = {} THEN 0
                 ELSE LET i == Min(Diff(a, b)) IN IF a[i] < b[i] THEN -1 ELSE 1
KeyLess(a, b) == LET n == IF Len(a) < Len(b) THEN Len(a) ELSE Len(b)
                     c == MemSign(SubSeq(a, 1, n), SubSeq(b, 1, n))
                 IN c < 0 \/ (c = 0 /\ Len(a) < Len(b))

Fill(n) == [j \in 1..n |-> 97 + (j % 23)]
With(x, i, v) == [j \in 1..Len(x) |-> IF j = i THEN v ELSE x[j]]
Vals == {<<1, 2>>, <<2, 1>>, <<127, 128>>, <<128, 127>>, <<0, 255>>, <<255, 0>>, <<97, 98>>}

Positions(n) == {i \in 1..n : i <= 3 \/ i >= n - 2 \/ i % 16 \in {0, 1, 15} \/ i = (n + 1) \div 2}

Init ==
  CASE Mode = "cmp" ->
         /\ s \in SS
         /\ p \in {0} \cup Positions(s)          \* 0: the ranges are equal
         /\ \E v \in Vals : va = v[1] /\ vb = v[2]
         /\ p2 \in {0} \cup (IF p # 0 THEN {i \in Positions(s) : i > p} ELSE {})   \* optional second difference
         /\ (p = 0 => <<va, vb>> = <<1, 2>>)
         /\ (p2 # 0 => <<va, vb>> \in {<<1, 2>>, <<128, 127>>})
    [] Mode = "keys" ->
         /\ s \in SS /\ s >= 1 /\ p \in Positions(s) /\ va = 0 /\ vb = 0 /\ p2 = 0
Next == UNCHANGED <<s, p, va, vb, p2>>

A == IF p = 0 THEN Fill(s) ELSE With(Fill(s), p, va)
\* a second difference has the opposite sign, so that a comparison that looks at the wrong one shows
B == LET b1 == IF p = 0 THEN Fill(s) ELSE With(Fill(s), p, vb) IN
     IF p2 = 0 THEN b1 ELSE With(b1, p2, (Fill(s)[p2] + 1) % 256)
A2 == IF p2 = 0 THEN A ELSE With(A, p2, (Fill(s)[p2] + 2) % 256)

KeySet == << With(Fill(s), p, 1), With(Fill(s), p, 127), With(Fill(s), p, 128), With(Fill(s), p, 255),
             Fill(s), SubSeq(Fill(s), 1, s - 1), Fill(s) \o <<0>>, Fill(s) \o <<200>> >>
Probes == << With(Fill(s), p, 2), With(Fill(s), p, 129), SubSeq(With(Fill(s), p, 1), 1, s - 1) \o <<3>>,
             Fill(s) \o <<1>>, With(Fill(s), IF p = 1 THEN s ELSE 1, 250) >>

Emit ==
  IF Mode = "cmp"
  THEN CSVWrite("%1$s", <<ToJson([a |-> A2, b |-> B, eq |-> MemEq(A2, B), sign |-> MemSign(A2, B)])>>, IOEnv.OUT)
  ELSE CSVWrite("%1$s", <<ToJson([keys |-> KeySet, probes |-> Probes,
          \* expected order of the keys under the map comparator (indices into keys, ascending)
          less |-> [i \in 1..Len(KeySet) |-> [j \in 1..Len(KeySet) |-> KeyLess(KeySet[i], KeySet[j])]],
          probefound |-> [i \in 1..Len(Probes) |-> \E j \in 1..Len(KeySet) : KeySet[j] = Probes[i]]])>>, IOEnv.OUT)
\* the comparator is a strict weak order on every generated key set (needed for the map to work)
LessIsStrictOrder == Mode = "keys" =>
  /\ \A i \in 1..Len(KeySet) : ~KeyLess(KeySet[i], KeySet[i])
  /\ \A i, j \in 1..Len(KeySet) : KeySet[i] # KeySet[j] => (KeyLess(KeySet[i], KeySet[j]) # KeyLess(KeySet[j], KeySet[i]))
  /\ \A i, j, k \in 1..Len(KeySet) : KeyLess(KeySet[i], KeySet[j]) /\ KeyLess(KeySet[j], KeySet[k]) => KeyLess(KeySet[i], KeySet[k])
=============================================================================
