------------------------------ MODULE MC_WriteBuf ------------------------------
EXTENDS WriteBuf, Json, CSV, IOUtils
VARIABLE cap0
Str(n, e) == [t |-> "str", n |-> n, out |-> n + 2 + 5 * e]     \* e of the n bytes need a 6-byte escape
Num(o) == [t |-> "num", out |-> o]
LitT == [t |-> "lit", out |-> 5]
LitF == [t |-> "lit", out |-> 6]
Open(k) == [t |-> "open", size |-> k]
Close == [t |-> "close"]
Empty == [t |-> "empty"]
Lens == {0, 1, 2, 5, 15, 16, 31, 32, 33, 70}
MCDocs ==
  {<<Str(n, 0), Close>> : n \in Lens} \cup {<<Str(n, n), Close>> : n \in Lens}
  \cup {<<Num(o), Close>> : o \in {1, 20, 24}} \cup {<<LitT, Close>>, <<LitF, Close>>, <<Empty, Close>>}
  \cup {<<Open(2), Str(n, n), Str(m, 0), Close>> : n \in Lens, m \in {1, 2, 4}}
  \cup {<<Open(p + 2), Num(20), Num(20), Num(20), Num(20), Num(20), Str(n, n), Num(1), Close>> : p \in {5}, n \in {40, 69, 70, 71}}
  \cup {<<Open(2), Open(1), Str(n, 1), Close, Empty, Close>> : n \in {1, 7, 33}}
  \cup {<<Open(3), LitT, LitF, Open(1), Num(24), Close, Close>>}
MCCaps == {c \in 0..700 : c < 140 \/ c % 7 = 0}
\* generator variant: remembers the starting capacity and emits the predicted final (Size, Capacity)
GInit == Init /\ cap0 = cap
GNext == Next /\ cap0' = cap0
EmitFinal == i = Len(toks) + 2 => CSVWrite("%1$s", <<ToJson([toks |-> toks, cap0 |-> cap0, size |-> top, cap |-> cap])>>, IOEnv.OUT)
=============================================================================
