------------------------------- MODULE Gen_Mut -------------------------------
(***************************************************************************)
(* G-mut corpus: for every base text (valid texts produced by the other    *)
(* generators, read from IOEnv.BASE): every proper prefix, every           *)
(* single-byte deletion, every replacement of a byte by each byte of       *)
(* MutSigma, every insertion of each byte of MutSigma.  Each mutant is     *)
(* judged by the R-model; a mutant that is still a JSON text is a valid    *)
(* case as well.  Single-fault texts are where the exact fault class is    *)
(* demanded (FaultScope = "one").                                          *)
(***************************************************************************)
EXTENDS JsonText, Json, CSV, IOUtils
CONSTANTS MutSigma, Kinds
VARIABLES b, kind, pos, ch

Base == ndJsonDeserialize(IOEnv.BASE)
BT(i) == Base[i].t

Init == /\ b \in 1..Len(Base)
        /\ kind \in Kinds
        /\ pos \in 0..Len(BT(b))
        /\ ch \in MutSigma
        /\ CASE kind = "prefix"  -> pos < Len(BT(b)) /\ ch = CHOOSE c \in MutSigma : TRUE
             [] kind = "delete"  -> pos >= 1 /\ ch = CHOOSE c \in MutSigma : TRUE
             [] kind = "replace" -> pos >= 1 /\ ch # BT(b)[pos]
             [] kind = "insert"  -> TRUE          \* insert after position pos (0 = at the start)
Next == UNCHANGED <<b, kind, pos, ch>>

Text ==
  LET t == BT(b) IN
  CASE kind = "prefix"  -> SubSeq(t, 1, pos)
    [] kind = "delete"  -> SubSeq(t, 1, pos - 1) \o SubSeq(t, pos + 1, Len(t))
    [] kind = "replace" -> SubSeq(t, 1, pos - 1) \o <<ch>> \o SubSeq(t, pos + 1, Len(t))
    [] kind = "insert"  -> SubSeq(t, 1, pos) \o <<ch>> \o SubSeq(t, pos + 1, Len(t))

\* (bound variables force one evaluation of the text and of its parse; LET definitions are re-evaluated at each use)
CaseOf(x, r) ==
  [t |-> x, ok |-> r.ok, why |-> r.why, at |-> r.i - 1, scope |-> FaultScope(x, r.why), v |-> r.v,
   cls |-> kind]
Case == CaseOf(Text, ParseText(Text))
Emit == \A x \in {Text} : \A r \in {ParseText(x)} : CSVWrite("%1$s", <<ToJson(CaseOf(x, r))>>, IOEnv.OUT)
=============================================================================
