------------------------------- MODULE Render -------------------------------
(***************************************************************************)
(* Syntax trees and their rendering to JSON text.                          *)
(*                                                                         *)
(* A syntax tree fixes the *spelling* of every scalar (a byte sequence     *)
(* that is a JSON token: literal, number or string literal with its        *)
(* quotes and escapes) and the nesting:                                    *)
(*     [s |-> "tok", b |-> bytes]                                          *)
(*     [s |-> "arr", e |-> <<trees>>]                                      *)
(*     [s |-> "obj", m |-> << <<keyliteral-bytes, tree>> ... >>]           *)
(* RenderL(tree, L) is the text under whitespace layout L; what the text   *)
(* denotes is always computed by JsonText!ParseText (so the generators     *)
(* add no semantics of their own; SpecRoundTrip checks that every          *)
(* rendered tree is accepted by the recogniser).                           *)
(*                                                                         *)
(* Also the R-model of serialisation (C06/C09): Quote(bytes) and           *)
(* RenderValue(v) for denoted values (canonical minified text).            *)
(***************************************************************************)
EXTENDS JsonText

Tok(b)  == [s |-> "tok", b |-> b]
Arr(e)  == [s |-> "arr", e |-> e]
Obj(m)  == [s |-> "obj", m |-> m]

Spaces(n) == [i \in 1..n |-> 32]

\* whitespace emitted at the places of a layout:
\*   pre  : before the root          post : after the root
\*   open : after [ or {             close: before ] or }
\*   sep  : after , and :            bsep : before , and :
Layout(L) ==
  CASE L = 0 -> [pre |-> <<>>, post |-> <<>>, open |-> <<>>, close |-> <<>>, sep |-> <<>>, bsep |-> <<>>]
    [] L = 1 -> [pre |-> <<>>, post |-> <<>>, open |-> <<>>, close |-> <<>>, sep |-> <<32>>, bsep |-> <<>>]
    [] L = 2 -> [pre |-> <<32, 10>>, post |-> <<9, 13, 10>>, open |-> <<32>>, close |-> <<10>>,
                 sep |-> <<32>>, bsep |-> <<9>>]
    \* a whitespace run longer than one 64-byte block after every separator
    [] L = 3 -> [pre |-> Spaces(3), post |-> Spaces(2), open |-> <<>>, close |-> <<>>,
                 sep |-> Spaces(65), bsep |-> <<>>]
    [] L = 4 -> [pre |-> <<>>, post |-> <<>>, open |-> Spaces(63), close |-> Spaces(64),
                 sep |-> <<>>, bsep |-> <<>>]

RECURSIVE RenderT(_, _), RenderElems(_, _, _), RenderMembers(_, _, _)
RenderT(t, ly) ==
  CASE t.s = "tok" -> t.b
    [] t.s = "arr" ->
         IF t.e = <<>> THEN <<91>> \o ly.open \o <<93>>
         ELSE <<91>> \o ly.open \o RenderElems(t.e, 1, ly) \o ly.close \o <<93>>
    [] t.s = "obj" ->
         IF t.m = <<>> THEN <<123>> \o ly.open \o <<125>>
         ELSE <<123>> \o ly.open \o RenderMembers(t.m, 1, ly) \o ly.close \o <<125>>
RenderElems(e, i, ly) ==
  IF i = Len(e) THEN RenderT(e[i], ly)
  ELSE RenderT(e[i], ly) \o ly.bsep \o <<44>> \o ly.sep \o RenderElems(e, i + 1, ly)
RenderMembers(m, i, ly) ==
  LET one == m[i][1] \o ly.bsep \o <<58>> \o ly.sep \o RenderT(m[i][2], ly) IN
  IF i = Len(m) THEN one
  ELSE one \o ly.bsep \o <<44>> \o ly.sep \o RenderMembers(m, i + 1, ly)

RenderL(t, L) == LET ly == Layout(L) IN ly.pre \o RenderT(t, ly) \o ly.post

RECURSIVE TreeNodes(_)
TreeNodes(t) ==
  CASE t.s = "tok" -> 1
    [] t.s = "arr" -> 1 + FoldLeft(LAMBDA a, x : a + TreeNodes(x), 0, t.e)
    [] t.s = "obj" -> 1 + FoldLeft(LAMBDA a, x : a + TreeNodes(x[2]), 0, t.m)

----------------------------------------------------------------------------
\* R-model of string quoting (C09): quote, per-byte image, quote.
HexDigit(n) == IF n < 10 THEN 48 + n ELSE 87 + n      \* lower case
QuoteByte(c) ==
  CASE c = 34 -> <<92, 34>>
    [] c = 92 -> <<92, 92>>
    [] c = 8  -> <<92, 98>>
    [] c = 12 -> <<92, 102>>
    [] c = 10 -> <<92, 110>>
    [] c = 13 -> <<92, 114>>
    [] c = 9  -> <<92, 116>>
    [] c < 32 -> <<92, 117, 48, 48, HexDigit(c \div 16), HexDigit(c % 16)>>
    [] OTHER  -> <<c>>
Quote(b) == <<34>> \o FoldLeft(LAMBDA acc, c : acc \o QuoteByte(c), <<>>, b) \o <<34>>

\* The property C09 in relational form: out = quote, images, quote, where the image of a
\* byte >= 0x20 other than quote and backslash is the byte itself and the image of any
\* other byte is *a* JSON escape denoting it (the two-character form where one exists, or
\* \u00XX with hex digits in either case).  Which of the valid escapes is used is not
\* constrained by the property.
NeedsEscape(c) == c < 32 \/ c = 34 \/ c = 92
ShortEscLetter(c) ==
  CASE c = 34 -> 34 [] c = 92 -> 92 [] c = 8 -> 98 [] c = 12 -> 102
    [] c = 10 -> 110 [] c = 13 -> 114 [] c = 9 -> 116 [] OTHER -> -1
\* number of bytes of out consumed at position j by a valid image of byte c (0 = no match)
ImageLen(out, j, c) ==
  IF ~NeedsEscape(c) THEN (IF At(out, j) = c THEN 1 ELSE 0)
  ELSE IF At(out, j) # 92 THEN 0
  ELSE IF ShortEscLetter(c) >= 0 /\ At(out, j + 1) = ShortEscLetter(c) THEN 2
  ELSE IF At(out, j + 1) = 117 /\ At(out, j + 2) = 48 /\ At(out, j + 3) = 48
          /\ HexVal(At(out, j + 4)) = c \div 16 /\ HexVal(At(out, j + 5)) = c % 16 THEN 6
  ELSE 0
RECURSIVE MatchImages(_, _, _, _)
MatchImages(out, j, b, i) ==
  IF i > Len(b) THEN j
  ELSE LET n == ImageLen(out, j, b[i]) IN
       IF n = 0 THEN -1 ELSE MatchImages(out, j + n, b, i + 1)
IsQuotingOf(out, b) ==
  /\ Len(out) >= 2 /\ out[1] = 34 /\ out[Len(out)] = 34
  /\ MatchImages(out, 2, b, 1) = Len(out)
  /\ Len(out) <= 6 * Len(b) + 2

=============================================================================
