CONSTANTS Mode = "pairs" AS = {0, 15, 31} BS = {0, 1} CS = {0, 5}
INIT Init
NEXT Next
INVARIANT Emit
INVARIANT SpecOk
CHECK_DEADLOCK FALSE
