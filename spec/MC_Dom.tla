------------------------------- MODULE MC_Dom -------------------------------
EXTENDS Dom
MCKeys == {<<97>>, <<98>>}
MCScalars == {Null, Uint(1), Real(3)}
MCStr == {<<>>, <<120>>}
SimKeys == {<<97>>, <<98>>, <<>>, <<107, 49, 50>>}
SimScalars == {Bool(TRUE), Uint(7), Sint(-1), Real(3)}
SimStr == {<<>>, <<120, 34, 92, 10>>}
\* hide the ledger and label from the fingerprint? no: they are functions of the I-state except
\* 'last', which would multiply states without adding behaviour
View == <<root, aux, nlive, rroot, raux>>
=============================================================================
