------------------------------- MODULE MC_Dom -------------------------------
EXTENDS Dom
MCKeys == {<<97>>, <<98>>}
MCScalars == {Null, Uint(1), Real(3)}
MCStr == {<<>>, <<120>>}
SimKeys == {<<97>>, <<98>>, <<>>, <<107, 49, 50>>}
\* Real(-1000001) stands for the double -0.0 (n / 2 cannot express it)
SimScalars == {Bool(TRUE), Uint(7), Uint(0), Sint(-1), Real(3), Real(0), Real(-1000001)}
SimStr == {<<>>, <<120, 34, 92, 10>>}
\* hide the ledger and label from the fingerprint? no: they are functions of the I-state except
\* 'last', which would multiply states without adding behaviour
View == <<root, aux, nlive, rroot, raux>>
=============================================================================
