------------------------------ MODULE SkipScan ------------------------------
(***************************************************************************)
(* I-model of the on-demand scanner (C10, C11): SkipScanner::GetOnDemand   *)
(* with GetArrayElem, SkipOne, and the primitives skip_space_safe,         *)
(* GetNextToken, SkipString, SkipContainer, SkipLiteral, SkipNumber        *)
(* (simd_skip.h:44-246, x86_common/skip.inc.h, skip_common.h), transcribed *)
(* in their *sequential meaning*: the vector code examines 16/32/64 bytes  *)
(* at a time, but what it computes per byte is what is written here (the   *)
(* escape rule "a byte is escaped iff an odd run of backslashes precedes   *)
(* it", quotes toggling in-string unless escaped, brackets counted outside *)
(* strings).  The scanner does not validate what it skips: the model says  *)
(* exactly how lenient it is.                                              *)
(*                                                                         *)
(* Positions are 0-based as in the code (pos = index of the next byte).    *)
(* Every operator returns a record; `oob` accumulates whether a byte       *)
(* outside [0, len) was read (C11 at the design level), `pk` says whether  *)
(* the final position is independent of the vector width (it is not after  *)
(* an unclosed string or container; those positions are not predicted).    *)
(*                                                                         *)
(* Properties (checked in MC_SkipScan over all byte strings up to a bound):*)
(*   InBounds   no read outside the input; on success 0 <= start <= pos    *)
(*              <= len                                                     *)
(*   Equiv      for a JSON text: success iff JsonValue!Lookup resolves,    *)
(*              and then the slice is a JSON text denoting the looked-up   *)
(*              value (first match for duplicate keys)                     *)
(***************************************************************************)
EXTENDS JsonValue

Byte0(t, p) == At(t, p + 1)              \* byte at 0-based position p, -1 outside
IsSp(c) == c \in {32, 9, 10, 13}
TLen(t) == Len(t)

\* error codes of sonic/error.h
EInvalidChar == 2  EUnknownKey == 8  EIndex == 9  EMismatch == 10
EStr == 100                          \* any of 4, 5, 6: a string-content error while decoding an escaped key

OkR(start, pos, oob) == [err |-> 0, start |-> start, pos |-> pos, oob |-> oob, pk |-> TRUE]
ErrR(e, pos, oob, pk) == [err |-> e, start |-> -1, pos |-> pos, oob |-> oob, pk |-> pk]

\* ---------------------------------------------------------------- skip_space_safe (skip.inc.h:190-246)
RECURSIVE FirstNonSp(_, _)
FirstNonSp(t, p) == IF p >= TLen(t) THEN TLen(t) ELSE IF IsSp(Byte0(t, p)) THEN FirstNonSp(t, p + 1) ELSE p
SkipSpace(t, pos) ==
  IF pos >= TLen(t)
  THEN (IF pos = 0 THEN [c |-> 0, pos |-> 1, oob |-> FALSE]
        ELSE [c |-> Byte0(t, pos - 1), pos |-> pos, oob |-> pos - 1 >= TLen(t)])      \* data[pos - 1] with nothing consumed
  ELSE LET p == FirstNonSp(t, pos) IN
       IF p < TLen(t) THEN [c |-> Byte0(t, p), pos |-> p + 1, oob |-> FALSE]
       ELSE [c |-> Byte0(t, TLen(t) - 1), pos |-> TLen(t), oob |-> FALSE]                \* only blanks left: the last blank

\* ---------------------------------------------------------------- GetNextToken (skip.inc.h:36-62)
RECURSIVE FirstIn(_, _, _)
FirstIn(t, p, S) == IF p >= TLen(t) THEN -1 ELSE IF Byte0(t, p) \in S THEN p ELSE FirstIn(t, p + 1, S)
NextTok(t, pos, S) ==
  LET p == FirstIn(t, pos, S) IN
  IF p >= 0 THEN [c |-> Byte0(t, p), pos |-> p] ELSE [c |-> 0, pos |-> IF pos < TLen(t) THEN TLen(t) ELSE pos]

\* ---------------------------------------------------------------- SkipString (skip.inc.h:64-117); pos = after the opening quote
\* k = 0 unclosed, 1 closed without backslash, 2 closed with a backslash somewhere; pos = after the closing quote
RECURSIVE SkipStr(_, _, _)
SkipStr(t, p, found) ==
  IF p >= TLen(t) THEN [k |-> 0, pos |-> p]
  ELSE IF Byte0(t, p) = 92 THEN (IF p + 1 >= TLen(t) THEN [k |-> 0, pos |-> p] ELSE SkipStr(t, p + 2, TRUE))
  ELSE IF Byte0(t, p) = 34 THEN [k |-> IF found THEN 2 ELSE 1, pos |-> p + 1]
  ELSE SkipStr(t, p + 1, found)

\* ---------------------------------------------------------------- SkipContainer (skip.inc.h:119-160); pos = after the opener
\* returns the position after the matching closer, or -1
RECURSIVE SkipCont(_, _, _, _, _, _, _)
SkipCont(t, p, L, R, esc, ins, bal) ==
  IF p >= TLen(t) THEN -1
  ELSE LET c == Byte0(t, p)
           esc2 == (c = 92 /\ ~esc)
           ins2 == IF c = 34 /\ ~esc THEN ~ins ELSE ins
       IN IF ~ins /\ c = R THEN (IF bal = 0 THEN p + 1 ELSE SkipCont(t, p + 1, L, R, esc2, ins2, bal - 1))
          ELSE IF ~ins /\ c = L THEN SkipCont(t, p + 1, L, R, esc2, ins2, bal + 1)
          ELSE SkipCont(t, p + 1, L, R, esc2, ins2, bal)
Container(t, pos, L, R) == SkipCont(t, pos, L, R, FALSE, FALSE, 0)

\* ---------------------------------------------------------------- SkipLiteral (skip_common.h:33-61); pos = after the first byte
Bytes(t, p, w) == \A j \in 1..Len(w) : Byte0(t, p + j - 1) = w[j]
SkipLit(t, pos, c) ==
  LET s == pos - 1 IN
  IF c = 116 /\ s + 4 <= TLen(t) /\ Bytes(t, s, <<116, 114, 117, 101>>) THEN pos + 3
  ELSE IF c = 110 /\ s + 4 <= TLen(t) /\ Bytes(t, s, <<110, 117, 108, 108>>) THEN pos + 3
  ELSE IF c = 102 /\ s + 5 <= TLen(t) /\ Bytes(t, s + 1, <<97, 108, 115, 101>>) THEN pos + 4
  ELSE -1

\* ---------------------------------------------------------------- SkipOne (simd_skip.h:97-143)
IsNumStart(c) == (c >= 48 /\ c <= 57) \/ c = 45
SkipOne(t, pos0, oob0) ==
  LET s == SkipSpace(t, pos0)
      start == s.pos - 1
      oob == oob0 \/ s.oob
  IN CASE s.c = 34 -> (LET r == SkipStr(t, s.pos, FALSE) IN
                       IF r.k = 0 THEN ErrR(EInvalidChar, r.pos, oob, FALSE) ELSE OkR(start, r.pos, oob))
       [] s.c = 123 -> (LET e == Container(t, s.pos, 123, 125) IN
                        IF e < 0 THEN ErrR(EInvalidChar, s.pos, oob, FALSE) ELSE OkR(start, e, oob))
       [] s.c = 91 -> (LET e == Container(t, s.pos, 91, 93) IN
                       IF e < 0 THEN ErrR(EInvalidChar, s.pos, oob, FALSE) ELSE OkR(start, e, oob))
       [] s.c \in {116, 110, 102} -> (LET e == SkipLit(t, s.pos, s.c) IN
                                      IF e < 0 THEN ErrR(EInvalidChar, s.pos, oob, TRUE) ELSE OkR(start, e, oob))
       [] IsNumStart(s.c) -> OkR(start, NextTok(t, s.pos, {93, 125, 44}).pos, oob)
       [] OTHER -> ErrR(EInvalidChar, s.pos, oob, TRUE)

\* skip of a value whose first byte c was already consumed (GetArrayElem, the mismatching-key branch): containers and
\* strings are skipped, anything else is left to the following GetNextToken.  Result: position, or -1
SkipKnown(t, c, pos) ==
  CASE c = 123 -> Container(t, pos, 123, 125)
    [] c = 91 -> Container(t, pos, 91, 93)
    [] c = 34 -> (LET r == SkipStr(t, pos, FALSE) IN IF r.k = 0 THEN -1 ELSE r.pos)
    [] OTHER -> pos

\* ---------------------------------------------------------------- GetArrayElem (simd_skip.h:55-93); pos = after '['
RECURSIVE ArrayElem(_, _, _, _)
ArrayElem(t, pos, idx, oob) ==
  IF idx > 0 /\ pos < TLen(t) THEN
    LET s == SkipSpace(t, pos)
        oob2 == oob \/ s.oob
    IN IF s.c = 93 THEN ErrR(EIndex, s.pos, oob2, TRUE)
       ELSE LET p2 == SkipKnown(t, s.c, s.pos) IN
            IF p2 < 0 THEN ErrR(EInvalidChar, s.pos, oob2, FALSE)
            ELSE LET n == NextTok(t, p2, {44, 93}) IN
                 IF n.c # 44 THEN ErrR(EIndex, n.pos, oob2, TRUE)
                 ELSE ArrayElem(t, n.pos + 1, idx - 1, oob2)
  ELSE IF idx = 0 THEN OkR(-1, pos, oob) ELSE ErrR(EInvalidChar, pos, oob, TRUE)

\* ---------------------------------------------------------------- GetOnDemand (simd_skip.h:148-246)
\* path: sequence of JsonValue steps; i = number of steps already resolved
RECURSIVE Query(_, _, _, _, _), ObjKey(_, _, _, _, _)
Query(t, pos, path, i, oob) ==
  IF i = Len(path) THEN SkipOne(t, pos, oob)
  ELSE LET s == SkipSpace(t, pos)
           st == path[i + 1]
           oob2 == oob \/ s.oob
       IN IF st.k = "key" THEN
            IF s.c # 123 THEN ErrR(EMismatch, s.pos - 1, oob2, TRUE)
            ELSE LET n == NextTok(t, s.pos, {34, 125}) IN
                 IF n.c # 34 THEN ErrR(EUnknownKey, n.pos, oob2, TRUE) ELSE ObjKey(t, n.pos, path, i, oob2)
          ELSE IF s.c # 91 THEN ErrR(EMismatch, s.pos - 1, oob2, TRUE)
          ELSE LET g == ArrayElem(t, s.pos, st.n, oob2) IN
               IF g.err # 0 THEN g ELSE Query(t, g.pos, path, i + 1, g.oob)
\* pos = position of the opening quote of a member name
ObjKey(t, pos, path, i, oob) ==
  LET p1 == pos + 1
      r == SkipStr(t, p1, FALSE)
  IN IF r.k = 0 THEN ErrR(EInvalidChar, r.pos - 1, oob, FALSE)
     ELSE LET raw == SubSeq(t, p1 + 1, r.pos - 1)                    \* the bytes between the quotes
              dec == IF r.k = 2 THEN DecFrom(raw \o <<34>>, 1, <<>>, FALSE) ELSE [ok |-> TRUE, b |-> raw]
          IN IF ~dec.ok THEN ErrR(EStr, p1, oob, FALSE)
             ELSE LET s == SkipSpace(t, r.pos)
                      oob2 == oob \/ s.oob
                  IN IF s.c # 58 THEN ErrR(EInvalidChar, s.pos - 1, oob2, TRUE)
                     ELSE IF dec.b = path[i + 1].b THEN Query(t, s.pos, path, i + 1, oob2)
                     ELSE LET s2 == SkipSpace(t, s.pos)
                              oob3 == oob2 \/ s2.oob
                              p3 == SkipKnown(t, s2.c, s2.pos)
                          IN IF p3 < 0 THEN ErrR(EInvalidChar, s2.pos - 1, oob3, FALSE)
                             ELSE LET n == NextTok(t, p3, {34, 125}) IN
                                  IF n.c # 34 THEN ErrR(EUnknownKey, n.pos, oob3, TRUE)
                                  ELSE ObjKey(t, n.pos, path, i, oob3)

OnDemand(t, path) == Query(t, 0, path, 0, FALSE)

\* ---------------------------------------------------------------- properties
InBounds(t, path) ==
  LET r == OnDemand(t, path) IN
  /\ ~r.oob
  /\ r.err = 0 => (0 <= r.start /\ r.start <= r.pos /\ r.pos <= TLen(t))

Equiv(t, path) ==
  LET p == ParseText(t) IN
  p.ok =>
    LET r == OnDemand(t, path)
        lk == Lookup(p.v, path)
    IN /\ (r.err = 0) = lk.found
       /\ lk.found => LET sl == ParseText(SubSeq(t, r.start + 1, r.pos)) IN sl.ok /\ sl.v = lk.v
=============================================================================
