----------------------------- MODULE Gen_Values -----------------------------
(***************************************************************************)
(* G-values corpus: every syntax tree with at most MaxNodes nodes over a   *)
(* pool of scalar spellings and key spellings (duplicate keys allowed),    *)
(* plus "wide" flat containers; each rendered under each layout, judged by *)
(* the R-model.  One initial state per (tree, layout).                     *)
(***************************************************************************)
EXTENDS Render, Json, CSV, IOUtils
CONSTANTS MaxNodes, Pool, Layouts, Wide
VARIABLES tree, layout

S(str) == str   \* byte sequences are written as tuples below

\* scalar spellings -------------------------------------------------------
NULL == <<110,117,108,108>>  TRU == <<116,114,117,101>>  FAL == <<102,97,108,115,101>>
N0 == <<48>>  NM0 == <<45,48>>  N1 == <<49>>  NM1 == <<45,49>>  N12 == <<49,50>>
N1p5 == <<49,46,53>>  N1e2 == <<49,101,50>>  NMf == <<45,49,46,53,69,45,49>>   \* -1.5E-1
N0p0 == <<48,46,48>>  NM0p0 == <<45,48,46,48>>
U64MAXS == <<49,56,52,52,54,55,52,52,48,55,51,55,48,57,53,53,49,54,49,53>>
U64OVER == <<49,56,52,52,54,55,52,52,48,55,51,55,48,57,53,53,49,54,49,54>>
I64MINS == <<45,57,50,50,51,51,55,50,48,51,54,56,53,52,55,55,53,56,48,56>>
I64UNDER == <<45,57,50,50,51,51,55,50,48,51,54,56,53,52,55,55,53,56,48,57>>
NF1 == <<52,53,48,51,53,57,57,54,50,55,51,55,48,52,57,53,101,51,48>>      \* 4503599627370495e30
NF2 == <<49,50,51,52,53,54,55,56,57,48,49,50,51,52,53,55,101,50,57>>      \* 1234567890123457e29
NF3 == <<57,48,48,55,49,57,57,50,53,52,55,52,48,57,57,51>>                 \* 9007199254740993 (2^53+1, integer)
NF4 == <<57,48,48,55,49,57,57,50,53,52,55,52,48,57,57,51,46,48>>           \* 9007199254740993.0 (halfway)
SE == <<34,34>>  SA == <<34,97,34>>  SNL == <<34,92,110,34>>
SU == <<34,92,117,48,48,101,57,34>>                                   \* "é"
SP == <<34,92,117,100,56,51,100,92,117,100,101,48,48,34>>               \* surrogate pair
SQ == <<34,97,92,34,98,34>>                                            \* "a\"b"
SS == <<34,91,44,93,123,125,58,34>>                                    \* "[,]{}:"
SF == <<34>> \o [i \in 1..40 |-> 97 + (i % 26)] \o <<34>>                \* 40-byte filler
SH == <<34,195,169,255,127,34>>                                        \* raw high bytes
SBS == <<34>> \o [i \in 1..31 |-> 120] \o <<92,92,34>>                   \* escape at a block edge

AtomsOf(p) ==
  CASE p = 0 -> {NULL, N1, SA}
    [] p = 1 -> {NULL, TRU, N1, NM1, N1p5, SA, SNL}
    [] p = 2 -> {NULL, TRU, FAL, N0, NM0, N1, NM1, N12, N1p5, N1e2, NMf, N0p0, NM0p0, U64MAXS, U64OVER,
                 I64MINS, I64UNDER, NF1, NF2, NF3, NF4, SE, SA, SNL, SU, SP, SQ, SS, SF, SH, SBS}
    \* pool for the on-demand corpora: strings containing brackets, quotes, commas
    [] p = 3 -> {N1, TRU, SS, SQ, N1p5}
    \* pool for the merge corpora (C19, C20)
    [] p = 4 -> {N1, SA, NULL}
    [] p = 5 -> {N1, SA}
KeysOf(p) ==
  CASE p = 0 -> {SA}
    [] p = 1 -> {SA, <<34,98,34>>}
    [] p = 2 -> {SA, <<34,98,34>>, SE, <<34,92,117,48,48,54,49,34>>, SNL, SF}   \* "a" decodes to "a"
    [] p = 3 -> {SA, <<34,98,34>>, <<34,92,117,48,48,54,49,34>>, SNL, SS}
    [] p = 4 -> {SA, <<34,98,34>>, <<34,99,34>>}
    [] p = 5 -> {SA, <<34,98,34>>, <<34,92,117,48,48,54,49,34>>, SNL}     \* with escaped spellings (C20)

Atoms == {Tok(b) : b \in AtomsOf(Pool)}
Keys  == KeysOf(Pool)

\* all sequences of trees with total node count n, and all trees with n nodes, level by level
\* (TLC evaluates constant definitions once, eagerly, at start-up - hence the MaxNodes guards).
SeqsFrom(V, n) ==   \* V: function k -> set of trees with k nodes, defined for k < = n
  LET RECURSIVE Sq(_)
      Sq(k) == IF k = 0 THEN {<<>>}
               ELSE UNION {{<<v>> \o r : v \in V[j], r \in Sq(k - j)} : j \in 1..k}
  IN Sq(n)
MSeqsFrom(V, n) ==
  LET RECURSIVE Sq(_)
      Sq(k) == IF k = 0 THEN {<<>>}
               ELSE UNION {{<< <<key, v>> >> \o r : key \in Keys, v \in V[j], r \in Sq(k - j)} : j \in 1..k}
  IN Sq(n)

Level(V, n) ==   \* trees with exactly n nodes given V for smaller counts
  IF n = 1 THEN Atoms \cup {Arr(<<>>), Obj(<<>>)}
  ELSE {Arr(e) : e \in SeqsFrom(V, n - 1)} \cup {Obj(m) : m \in MSeqsFrom(V, n - 1)}

V1 == [k \in {1} |-> Level(<<>>, 1)]
V2 == IF MaxNodes < 2 THEN <<>> ELSE [k \in 1..2 |-> IF k < 2 THEN V1[k] ELSE Level(V1, 2)]
V3 == IF MaxNodes < 3 THEN <<>> ELSE [k \in 1..3 |-> IF k < 3 THEN V2[k] ELSE Level(V2, 3)]
V4 == IF MaxNodes < 4 THEN <<>> ELSE [k \in 1..4 |-> IF k < 4 THEN V3[k] ELSE Level(V3, 4)]
V5 == IF MaxNodes < 5 THEN <<>> ELSE [k \in 1..5 |-> IF k < 5 THEN V4[k] ELSE Level(V4, 5)]
V6 == IF MaxNodes < 6 THEN <<>> ELSE [k \in 1..6 |-> IF k < 6 THEN V5[k] ELSE Level(V5, 6)]
VN == CASE MaxNodes = 1 -> V1 [] MaxNodes = 2 -> V2 [] MaxNodes = 3 -> V3
        [] MaxNodes = 4 -> V4 [] MaxNodes = 5 -> V5 [] MaxNodes = 6 -> V6
AllTrees == UNION {VN[k] : k \in 1..MaxNodes}

\* wide flat containers: n children cross the 4-chunk copy loop and its remainders
WideSizes == {0, 1, 2, 3, 4, 5, 6, 7, 8, 9, 15, 16, 17, 18, 33}
BigSizes == {64, 65, 255, 256, 511, 512, 513}
WideArr(n) == Arr([i \in 1..n |-> Tok(IF i % 3 = 0 THEN SA ELSE IF i % 3 = 1 THEN N12 ELSE TRU)])
WideObj(n) == Obj([i \in 1..n |-> << <<34, 107, 48 + (i \div 100), 48 + ((i \div 10) % 10), 48 + (i % 10), 34>>,
                                     Tok(IF i % 2 = 0 THEN NULL ELSE N1p5) >>])
WideTrees ==
  {WideArr(n) : n \in WideSizes} \cup {WideObj(n) : n \in WideSizes}
  \cup {Arr([i \in 1..n |-> Arr(<<Tok(N1)>>)]) : n \in {1, 2, 17}}
\* hundreds of members / elements (only rendered minified: the R-model parse is quadratic)
BigTrees == {WideArr(n) : n \in BigSizes} \cup {WideObj(n) : n \in BigSizes}

Init == IF Wide THEN ((tree \in WideTrees /\ layout \in Layouts) \/ (tree \in BigTrees /\ layout = 0))
        ELSE (tree \in AllTrees /\ layout \in Layouts)
Next == UNCHANGED <<tree, layout>>

Text == RenderL(tree, layout)
\* (bound variables force one evaluation of the text and of its parse; LET definitions are re-evaluated at each use)
CaseOf(x, r) ==
  [t |-> x, ok |-> r.ok, why |-> r.why, at |-> r.i - 1, scope |-> FaultScope(x, r.why), v |-> r.v,
   nodes |-> TreeNodes(tree), layout |-> layout]
Case == CaseOf(Text, ParseText(Text))
Emit == \A x \in {Text} : \A r \in {ParseText(x)} : CSVWrite("%1$s", <<ToJson(CaseOf(x, r))>>, IOEnv.OUT)

\* every rendered tree is a JSON text unless it contains an overflowing number (none in the pools)
SpecRoundTrip == ParseText(Text).ok
=============================================================================
