------------------------------ MODULE Gen_BigC ------------------------------
(***************************************************************************)
(* One very wide container (N elements / members, N in the thousands),     *)
(* rendered minified, with the R-model verdict.  A module of its own       *)
(* because the R-model parse of a text of tens of kilobytes takes tens of  *)
(* seconds in TLC: the check runs one TLC per (N, Kind) in parallel.       *)
(* Element i of the array cycles through a string, an integer and a        *)
(* literal; member i of the object has the distinct key "k<i, 5 digits>"   *)
(* and alternates null and 1.5 (so a member that is lost, duplicated or    *)
(* left unwritten shows in the walk).                                      *)
(***************************************************************************)
EXTENDS Render, Json, CSV, IOUtils
CONSTANTS N, Kind
VARIABLE z

D5(i) == <<48 + (i \div 10000), 48 + ((i \div 1000) % 10), 48 + ((i \div 100) % 10), 48 + ((i \div 10) % 10), 48 + (i % 10)>>
Elem(i) == Tok(IF i % 3 = 0 THEN <<34, 97, 34>> ELSE IF i % 3 = 1 THEN <<49, 50>> \o D5(i) ELSE <<116, 114, 117, 101>>)
Tree == IF Kind = "arr" THEN Arr([i \in 1..N |-> Elem(i)])
        ELSE Obj([i \in 1..N |-> << <<34, 107>> \o D5(i) \o <<34>>, Tok(IF i % 2 = 0 THEN <<110, 117, 108, 108>> ELSE <<49, 46, 53>>) >>])
Init == z = 0
Next == UNCHANGED z
\* (bound variables force one evaluation of the rendering and of the parse; a LET definition would be re-evaluated at each use)
Emit == \A x \in {RenderL(Tree, 0)} : \A r \in {ParseText(x)} :
  CSVWrite("%1$s", <<ToJson([t |-> x, ok |-> r.ok, why |-> r.why, at |-> r.i - 1, scope |-> IF r.ok THEN "" ELSE FaultScope(x, r.why), v |-> r.v,
                             nodes |-> N + 1, layout |-> 0])>>, IOEnv.OUT)
=============================================================================
