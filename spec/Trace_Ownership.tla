--------------------------- MODULE Trace_Ownership ---------------------------
(***************************************************************************)
(* Allocation protocol (C13) and validation of ledger traces recorded by   *)
(* the tracking allocator (harness/track_alloc.h) while the real library   *)
(* executes TLC-generated behaviours.                                      *)
(*   alloc(id): id is fresh          free(id): id is live (so: no double   *)
(*   or foreign free)                reset: the last owner was destroyed - *)
(*   nothing may be live.                                                  *)
(* The trace spec consumes one recorded event per step; a trace is         *)
(* accepted iff every event is enabled (POSTCONDITION Accepted).           *)
(***************************************************************************)
EXTENDS Naturals, Sequences, FiniteSets, Json, IOUtils, TLC
VARIABLES live, l

Tr == ndJsonDeserialize(IOEnv.TRACE)

Alloc(id) == id \notin live /\ live' = live \cup {id}
Free(id)  == id \in live /\ live' = live \ {id}
Reset     == live = {} /\ live' = live

Init == live = {} /\ l = 1
Next == /\ l <= Len(Tr)
        /\ l' = l + 1
        /\ LET ev == Tr[l] IN
           CASE ev.e = "alloc" -> Alloc(ev.id)
             [] ev.e = "free"  -> Free(ev.id)
             [] ev.e = "reset" -> Reset
             \* a block attributed by the harness to a *recorded* leak (known finding) is written off
             \* explicitly; any other leftover block still makes the following reset fail
             [] ev.e = "knownleak" -> Free(ev.id)
             [] OTHER -> FALSE          \* "badfree" and anything unknown is rejected
Accepted == TLCGet("stats").diameter - 1 = Len(Tr)
\* for the evidence: the prefix that was accepted
Matched == TLCGet("stats").diameter - 1
=============================================================================
