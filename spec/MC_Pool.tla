------------------------------- MODULE MC_Pool -------------------------------
EXTENDS Pool
View == <<chunks, blocks, mem, refcount, minchunk, nextid, nexttag, steps>>
=============================================================================
