------------------------------ MODULE Gen_Atoms ------------------------------
(***************************************************************************)
(* Number atoms at the edges of the value classes (spec/NumAtoms.tla), in  *)
(* the four places a number can stand: root, array element, member value,  *)
(* and after a long blank run.  One initial state per (atom, place); the   *)
(* verdict is JsonText!ParseText's (overflow by Rounding!Overflows).       *)
(***************************************************************************)
EXTENDS JsonText, NumAtoms, Json, CSV, IOUtils
VARIABLES a, c

Spaces(n) == [i \in 1..n |-> 32]
Place(x, k) ==
  CASE k = 0 -> x
    [] k = 1 -> <<91>> \o x \o <<44, 49, 93>>                              \* [x,1]
    [] k = 2 -> <<123, 34, 107, 34, 58>> \o x \o <<125>>                   \* {"k":x}
    [] k = 3 -> Spaces(33) \o <<91, 49, 44>> \o Spaces(31) \o x \o <<32, 93>>
Text == Place(NumAtomSeq[a], c)

Init == a \in DOMAIN NumAtomSeq /\ c \in 0..3
Next == FALSE /\ UNCHANGED <<a, c>>

\* (bound variables force one evaluation of the text and of its parse; LET definitions are re-evaluated at each use)
CaseOf(x, r) ==
  [t |-> x, ok |-> r.ok, why |-> r.why, at |-> r.i - 1, scope |-> FaultScope(x, r.why), v |-> r.v]
Case == CaseOf(Text, ParseText(Text))
Emit == \A x \in {Text} : \A r \in {ParseText(x)} : CSVWrite("%1$s", <<ToJson(CaseOf(x, r))>>, IOEnv.OUT)
=============================================================================
