CONSTANTS MaxTok = 3 Junk = TRUE
INIT Init
NEXT Next
INVARIANT Emit
CHECK_DEADLOCK FALSE
