---------------------------- MODULE Gen_Numbers -----------------------------
(***************************************************************************)
(* Structural classes of JSON number spellings (C04, C08): every           *)
(* combination of sign, integer-digit count, fraction-digit count,         *)
(* exponent form and digit pattern that selects a different path of the    *)
(* number parser (19/20-digit cap, 17-digit fraction window, exact fast    *)
(* path up to 1e22(+15), table path, Eisel-Lemire, big-decimal fallback),  *)
(* and for the integer printer every digit count with each pattern of      *)
(* zero / nine groups.  One initial state per spelling; the text is the    *)
(* only output (what it denotes is decided later from the text).           *)
(***************************************************************************)
EXTENDS Naturals, Integers, Sequences, Json, CSV, IOUtils
CONSTANTS Mode   \* "float" | "int"
VARIABLES neg, ni, nf, ex, pat

\* digit patterns: position j (1-based) of n digits
Dig(p, j, n) ==
  CASE p = "ones"  -> IF j = 1 THEN 1 ELSE 0
    [] p = "nines" -> 9
    [] p = "count" -> (j % 9) + 1
    [] p = "lastone" -> IF j = 1 \/ j = n THEN 1 ELSE 0
    [] p = "mid5" -> IF j = 1 THEN 1 ELSE IF j = (n + 1) \div 2 + 1 THEN 5 ELSE 0
    [] p = "zgroups" -> IF ((j - 1) \div 4) % 2 = 0 THEN 7 ELSE 0
Digits(p, n) == [j \in 1..n |-> 48 + Dig(p, j, n)]
FracDigits(p, n) == [j \in 1..n |-> 48 + (IF p = "ones" THEN (IF j = n THEN 1 ELSE 0) ELSE Dig(p, j, n))]

Exps == << <<>>, <<101,48>>, <<101,49>>, <<69,43,53>>, <<101,45,49>>, <<101,50,50>>, <<101,50,51>>, <<101,51,55>>, <<101,51,56>>,
           <<101,45,50,50>>, <<101,45,50,51>>, <<101,50,56,57>>, <<101,51,48,56>>, <<101,45,51,48,56>>, <<101,45,51,50,52>>,
           <<101,52,48,48>>, <<101,45,52,48,48>>, <<101,48,48,48,49>>, <<101,45,57,57,57,57,57,57,57,57,57,57>> >>

IntCounts == {1, 2, 8, 9, 15, 16, 17, 18, 19, 20, 21, 22, 25, 40, 310}
FracCounts == {0, 1, 2, 15, 16, 17, 18, 19, 20, 40, 330}
Pats == {"ones", "nines", "count", "lastone", "mid5", "zgroups"}

Init ==
  IF Mode = "float"
  THEN /\ neg \in BOOLEAN /\ ni \in IntCounts /\ nf \in FracCounts /\ ex \in DOMAIN Exps /\ pat \in Pats
       /\ (ni > 40 => nf <= 2) /\ (nf > 40 => ni <= 2)
  ELSE /\ neg \in BOOLEAN /\ ni \in 1..20 /\ nf = 0 /\ ex = 1 /\ pat \in Pats
Next == UNCHANGED <<neg, ni, nf, ex, pat>>

Text == (IF neg THEN <<45>> ELSE <<>>) \o Digits(pat, ni)
        \o (IF nf > 0 THEN <<46>> \o FracDigits(pat, nf) ELSE <<>>) \o Exps[ex]
Emit == CSVWrite("%1$s", <<ToJson([t |-> Text])>>, IOEnv.OUT)
=============================================================================
