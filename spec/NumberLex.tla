----------------------------- MODULE NumberLex ------------------------------
(***************************************************************************)
(* From the lexical pieces of a JSON number (JsonText!LexNum) to what the  *)
(* number denotes (R-model for the kind rule of C03/C04):                  *)
(*   NumKind(n)  \in {"uint", "sint", "negzero", "real"}                    *)
(*   NumD(n), NumE(n): magnitude = NumD * 10^NumE (digit sequence, int)    *)
(*   NumOverflows(n): magnitude rounds to infinity                         *)
(* Kind rule of the property: an integer spelling (no fraction, no         *)
(* exponent) that fits uint64 (non-negative) or int64 (negative) is that   *)
(* integer kind; everything else is a double.  "-0" is an integer spelling *)
(* whose value 0 fits both kinds: the property does not choose, so it is   *)
(* its own class ("negzero": either integer kind with value 0 accepted).   *)
(***************************************************************************)
EXTENDS Rounding

U64MAX == <<1,8,4,4,6,7,4,4,0,7,3,7,0,9,5,5,1,6,1,5>>
I64MINMAG == <<9,2,2,3,3,7,2,0,3,6,8,5,4,7,7,5,8,0,8>>

\* a <= b for digit sequences without leading zeros
DigLe(a, b) ==
  IF Len(a) # Len(b) THEN Len(a) < Len(b)
  ELSE \A i \in 1..Len(a) : (\A j \in 1..(i - 1) : a[j] = b[j]) => a[i] <= b[i]

IsIntSpelling(n) == ~n.hasf /\ ~n.hase

NumKind(n) ==
  IF ~IsIntSpelling(n) THEN "real"
  ELSE IF ~n.neg THEN (IF DigLe(n.ip, U64MAX) THEN "uint" ELSE "real")
  ELSE IF n.ip = <<0>> THEN "negzero"
  ELSE IF DigLe(n.ip, I64MINMAG) THEN "sint" ELSE "real"

\* exponent as an integer, saturated (more than 9 significant exponent digits
\* cannot be told apart by any double)
ExpVal(n) ==
  LET d == StripZ(n.ed) IN
  LET mag == IF Len(d) > 9 THEN 999999999
             ELSE FoldLeft(LAMBDA acc, x : acc * 10 + x, 0, d)
  IN IF n.eneg THEN -mag ELSE mag

NumD(n) == n.ip \o n.fp
NumE(n) == ExpVal(n) - Len(n.fp)

NumOverflows(n) == Overflows(NumD(n), NumE(n))

=============================================================================
