----------------------------- MODULE Gen_RandOD -----------------------------
(***************************************************************************)
(* C10 beyond the exhaustive node bound: TLC simulation grows a syntax     *)
(* tree by random insertions (containers and leaves whose spellings hold   *)
(* what the skipping scanner must not trip over: escaped quotes, brackets  *)
(* and commas inside strings, a backslash before the closing quote, long   *)
(* strings and numbers), renders it under layout LayE, and emits one       *)
(* on-demand case per node of the tree (the path that leads to it) plus,   *)
(* per node, a path that misses (absent key / index = size / wrong kind).  *)
(* Expected result: JsonValue!Lookup on the denoted value.  The scanner's  *)
(* I-model (SkipScan) is evaluated on every emitted case (RODEquiv).       *)
(***************************************************************************)
EXTENDS Gen_RandMerge, SkipScan

ODLeaves == {Tok(N1), Tok(NULL), Tok(N1p5), Tok(SA), Tok(SQ),
             Tok(<<34, 93, 125, 44, 91, 34>>),                      \* "]},["
             Tok(<<34, 92, 92, 34>>),                               \* "\\"   (backslash before the closing quote)
             Tok(<<34>> \o [i \in 1..40 |-> 120] \o <<34>>),        \* forty x
             Tok(<<45, 49, 50, 51, 52, 53, 54, 55, 56, 57, 48, 49, 50, 51, 52, 53, 54, 55, 101, 45, 49, 50>>)}   \* -12345678901234567e-12
ODNodes == ODLeaves \cup {Obj(<<>>), Arr(<<>>), Arr(<<Tok(SA)>>), Obj(<< <<K3[1], Tok(N1)>> >>)}

ODInserts(t) ==
  UNION {LET nd == NodeAt(t, p) IN
         CASE nd.s = "obj" -> {PutAt(t, p, Obj(Append(nd.m, <<KeysR[k], x>>))) : k \in FreeKeys(nd), x \in ODNodes}
           [] nd.s = "arr" -> {PutAt(t, p, Arr(Append(nd.e, x))) : x \in ODNodes}
           [] OTHER -> {} : p \in Pos(t)}

\* the pointer path of a position: key steps carry the decoded name
RECURSIVE PathOfPos(_, _)
PathOfPos(t, p) ==
  IF p = <<>> THEN <<>>
  ELSE IF t.s = "obj" THEN <<KeyStep(DecodeString(t.m[Head(p)][1]).b)>> \o PathOfPos(t.m[Head(p)][2], Tail(p))
  ELSE <<IdxStep(Head(p) - 1)>> \o PathOfPos(t.e[Head(p)], Tail(p))
\* a path that leaves the tree at the node of position p
MissOf(t, p) ==
  LET nd == NodeAt(t, p) IN
  PathOfPos(t, p) \o (IF nd.s = "obj" THEN <<KeyStep(<<122, 122>>)>> ELSE IF nd.s = "arr" THEN <<IdxStep(Len(nd.e))>> ELSE <<IdxStep(0)>>)

OInit == RInit
ONext == UNCHANGED <<tree, tree2, layout, tb, tc, phase>> /\ n < GrowSteps /\ ta' \in ODInserts(ta) /\ n' = n + 1

ODCase(x, r, path) == LET lk == Lookup(r.v, path) IN [t |-> x, ok |-> r.ok, path |-> path, found |-> lk.found, v |-> lk.v, layout |-> LayE]
OEmit == n = GrowSteps =>
  \A x \in {RenderL(ta, LayE)} : \A r \in {ParseText(x)} :
    \A p \in Pos(ta) : /\ CSVWrite("%1$s", <<ToJson(ODCase(x, r, PathOfPos(ta, p)))>>, IOEnv.OUT)
                       /\ CSVWrite("%1$s", <<ToJson(ODCase(x, r, MissOf(ta, p)))>>, IOEnv.OUT)
RODEquiv == n = GrowSteps =>
  \A x \in {RenderL(ta, LayE)} : \A p \in Pos(ta) :
    /\ Equiv(x, PathOfPos(ta, p)) /\ InBounds(x, PathOfPos(ta, p))
    /\ Equiv(x, MissOf(ta, p)) /\ InBounds(x, MissOf(ta, p))
=============================================================================
