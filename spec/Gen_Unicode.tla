---------------------------- MODULE Gen_Unicode -----------------------------
(***************************************************************************)
(* \u escape corpus for C05: every 16-bit value as a single escape, and    *)
(* ordered pairs of escapes: a boundary grid of ill-/well-formed pairs     *)
(* and (Full = TRUE) all 1024 x 1024 well-formed surrogate pairs.          *)
(* The R-model gives the UTF-8 bytes or the rejection.                     *)
(***************************************************************************)
EXTENDS JsonText, Json, CSV, IOUtils
CONSTANTS Mode          \* "single" | "grid" | "pairs"
VARIABLES hi, lo

HexCh(n, up) == IF n < 10 THEN 48 + n ELSE (IF up THEN 55 ELSE 87) + n
Esc(u) == LET up == u % 2 = 1 IN
  <<92, 117, HexCh(u \div 4096, up), HexCh((u \div 256) % 16, up), HexCh((u \div 16) % 16, up), HexCh(u % 16, up)>>

Edge == {0, 1, 31, 32, 127, 128, 2047, 2048, 55295, 55296, 55297, 56319, 56320, 56321, 57343, 57344, 65533, 65535}

Init == CASE Mode = "single" -> hi \in 0..65535 /\ lo = -1
          [] Mode = "grid"   -> hi \in Edge /\ lo \in Edge
          [] Mode = "pairs"  -> hi \in 55296..56319 /\ lo \in 56320..57343
Next == UNCHANGED <<hi, lo>>

\* a filler byte before and after, so that the escape is neither first nor last in the literal
SLit == <<34, 120>> \o Esc(hi) \o (IF lo >= 0 THEN Esc(lo) ELSE <<>>) \o <<121, 34>>
\* (bound variables force one evaluation of the text and of its parse; LET definitions are re-evaluated at each use)
CaseOf(x, r) ==
  [t |-> x, ok |-> r.ok, why |-> r.why, at |-> r.i - 1, scope |-> FaultScope(x, r.why), v |-> r.v]
Case == CaseOf(SLit, ParseText(SLit))
Emit == \A x \in {SLit} : \A r \in {ParseText(x)} : CSVWrite("%1$s", <<ToJson(CaseOf(x, r))>>, IOEnv.OUT)
=============================================================================
