--------------------------------- MODULE Dom ---------------------------------
(***************************************************************************)
(* The DOM mutation API of sonic-cpp (DNode) as a state machine.           *)
(*                                                                         *)
(* I-model: nodes in the representation the code uses - element count in   *)
(* the node, capacity and the optional key->index lookup map in a hidden   *)
(* header in front of the children, string ownership kinds, and the        *)
(* allocation ledger (number of blocks obtained from the allocator and not *)
(* yet returned).  One action per public operation, transcribed from       *)
(* dynamicnode.h (anchors in comments).                                    *)
(* R-model: plain ordered containers (Abs): an array is a sequence of      *)
(* values, an object a sequence of <<key, value>> pairs.                   *)
(*                                                                         *)
(* State: two free-standing nodes root and aux living in one allocator.    *)
(* Operations address root, aux, or a direct child of root (cursor c).     *)
(* Nodes move between root and aux (PushBack / AddMember take aux by       *)
(* move), so arbitrarily nested values arise.                              *)
(*                                                                         *)
(* Properties (C12, C13, C18):                                             *)
(*   Refines     Abs(I-state') = R-op(Abs(I-state))  - by construction of  *)
(*               the history variable rstate, checked as an invariant      *)
(*   MapOk       a lookup map holds exactly one entry <<key_i, i>> per     *)
(*               member                                                    *)
(*   CapOk       size <= capacity, capacity 0 iff no children block        *)
(*   LookupOk    FindMember through the map / linear agree with the        *)
(*               R-model (first match; any match for duplicate keys + map) *)
(*   LedgerOk    blocks outstanding = blocks reachable from root and aux   *)
(***************************************************************************)
EXTENDS Naturals, Integers, Sequences, FiniteSets, SequencesExt, FiniteSetsExt, TLC

CONSTANTS KeyPool,      \* set of key byte sequences
          Scalars,      \* set of scalar I-nodes used by SetScalar
          StrBytes,     \* set of byte sequences used by SetString
          MaxSize,      \* bound on container sizes (state constraint only)
          MaxNodes      \* bound on total node count (state constraint only)

VARIABLES root, aux,    \* I-nodes
          nlive,        \* ledger: blocks allocated and not yet freed
          rroot, raux,  \* R-state (history variables: what plain containers would hold)
          last          \* last action (label + arguments + return value), for traces

vars == <<root, aux, nlive, rroot, raux, last>>

NoMap == [on |-> FALSE, e |-> <<>>]
MkMap(e) == [on |-> TRUE, e |-> e]

\* ------------------------------------------------------------------ I-nodes
Null      == [t |-> "null"]
Bool(b)   == [t |-> IF b THEN "true" ELSE "false"]
Uint(n)   == [t |-> "uint", n |-> n]
Sint(n)   == [t |-> "sint", n |-> n]            \* n < 0
Real(h)   == [t |-> "real", n |-> h]            \* the double h / 2
Str(b, o) == [t |-> "str", b |-> b, own |-> o]  \* o \in {"const", "free", "copy"}
ArrN(e, cap) == [t |-> "arr", e |-> e, cap |-> cap]
ObjN(m, cap, map) == [t |-> "obj", m |-> m, cap |-> cap, map |-> map]   \* m: seq of [k |-> Str, v |-> node]

IsArr(n) == n.t = "arr"
IsObj(n) == n.t = "obj"
Size(n) == IF IsArr(n) THEN Len(n.e) ELSE IF IsObj(n) THEN Len(n.m) ELSE 0

SumSeq(s) == FoldLeft(LAMBDA a, x : a + x, 0, s)

\* blocks a node owns (genericnode.h StringCopy; dynamicnode.h containerMalloc, CreateMap)
RECURSIVE Blocks(_)
Blocks(n) ==
  CASE n.t = "str" -> IF n.own = "free" THEN 1 ELSE 0
    [] n.t = "arr" -> (IF n.cap > 0 THEN 1 ELSE 0) + SumSeq([i \in 1..Len(n.e) |-> Blocks(n.e[i])])
    [] n.t = "obj" -> (IF n.cap > 0 THEN 1 ELSE 0)
                      + (IF n.map.on THEN 1 + Len(n.map.e) ELSE 0)
                      + SumSeq([i \in 1..Len(n.m) |-> Blocks(n.m[i].k) + Blocks(n.m[i].v)])
    [] OTHER -> 0

RECURSIVE Nodes(_)
Nodes(n) ==
  CASE n.t = "arr" -> 1 + SumSeq([i \in 1..Len(n.e) |-> Nodes(n.e[i])])
    [] n.t = "obj" -> 1 + SumSeq([i \in 1..Len(n.m) |-> 1 + Nodes(n.m[i].v)])
    [] OTHER -> 1

\* ------------------------------------------------------------------ R-values
RECURSIVE Abs(_)
Abs(n) ==
  CASE n.t = "str" -> [k |-> "str", b |-> n.b]
    [] n.t = "arr" -> [k |-> "arr", e |-> [i \in 1..Len(n.e) |-> Abs(n.e[i])]]
    [] n.t = "obj" -> [k |-> "obj", m |-> [i \in 1..Len(n.m) |-> <<n.m[i].k.b, Abs(n.m[i].v)>>]]
    [] n.t \in {"uint", "sint", "real"} -> [k |-> n.t, n |-> n.n]
    [] OTHER -> [k |-> n.t]

RKeys(v) == [i \in 1..Len(v.m) |-> v.m[i][1]]
RFindAll(v, key) == {i \in 1..Len(v.m) : v.m[i][1] = key}
RHasDup(v) == \E i, j \in 1..Len(v.m) : i # j /\ v.m[i][1] = v.m[j][1]

\* ------------------------------------------------------------------ lookups (dynamicnode.h:613-656)
\* through the map: first entry with that key in insertion order (std::multimap::find + emplace
\* keep equal keys in insertion order); returns a 1-based member index or 0
MapFind(map, key) ==
  LET ix == {j \in 1..Len(map) : map[j][1] = key} IN
  IF ix = {} THEN 0 ELSE map[Min(ix)][2] + 1
LinearFind(n, key) ==
  LET ix == {i \in 1..Len(n.m) : n.m[i].k.b = key} IN IF ix = {} THEN 0 ELSE Min(ix)
IFind(n, key) == IF n.map.on THEN MapFind(n.map.e, key) ELSE LinearFind(n, key)

\* ------------------------------------------------------------------ deep copy (dynamicnode.h:74-127)
RECURSIVE Copy(_)
Copy(n) ==
  CASE n.t = "str" -> IF n.own = "const" THEN n ELSE Str(n.b, "free")
    [] n.t = "arr" -> ArrN([i \in 1..Len(n.e) |-> Copy(n.e[i])], Len(n.e))
    [] n.t = "obj" -> ObjN([i \in 1..Len(n.m) |-> [k |-> Copy(n.m[i].k), v |-> Copy(n.m[i].v)]], Len(n.m), NoMap)
    [] OTHER -> n

\* CopyFrom(..., copyString = true): borrowed strings are copied as well, the result owns every string
RECURSIVE CopyOwn(_)
CopyOwn(n) ==
  CASE n.t = "str" -> Str(n.b, "free")
    [] n.t = "arr" -> ArrN([i \in 1..Len(n.e) |-> CopyOwn(n.e[i])], Len(n.e))
    [] n.t = "obj" -> ObjN([i \in 1..Len(n.m) |-> [k |-> CopyOwn(n.m[i].k), v |-> CopyOwn(n.m[i].v)]], Len(n.m), NoMap)
    [] OTHER -> n

Grow(cap) == IF cap = 0 THEN 16 ELSE cap + ((cap + 1) \div 2)       \* :672-706, :787-804

\* ------------------------------------------------------------------ node operations: each returns the
\* new node; the ledger effect is always Blocks(new) - Blocks(old) + (what moved out/in), computed
\* by the caller from the I-nodes, because the code frees exactly what destroy() reaches.

PushBackN(n, v) ==
  LET cap2 == IF Len(n.e) >= n.cap THEN Grow(n.cap) ELSE n.cap IN ArrN(Append(n.e, v), cap2)
PopBackN(n) == ArrN(SubSeq(n.e, 1, Len(n.e) - 1), n.cap)
EraseN(n, i, j) ==          \* 0-based half-open [i, j)                :806-818
  ArrN(SubSeq(n.e, 1, i) \o SubSeq(n.e, j + 1, Len(n.e)), n.cap)
ReserveN(n, c) == IF c > n.cap THEN ArrN(n.e, c) ELSE n               \* :446-452
ClearN(n) == IF IsArr(n) THEN ArrN(<<>>, 0) ELSE ObjN(<<>>, 0, NoMap) \* :863-868 clearImpl

AddMemberN(n, key, v, copyKey) ==                                      \* :672-706
  LET cnt  == Len(n.m)
      cap2 == IF cnt >= n.cap THEN Grow(n.cap) ELSE n.cap
      name == Str(key, IF copyKey THEN "free" ELSE "const")
      map2 == IF n.map.on THEN MkMap(Append(n.map.e, <<key, cnt>>)) ELSE NoMap
  IN ObjN(Append(n.m, [k |-> name, v |-> v]), cap2, map2)

\* :708-762 removeMemberImpl.  Returns [n |-> node, ok |-> BOOLEAN]
DropAt(s, j) == SubSeq(s, 1, j - 1) \o SubSeq(s, j + 1, Len(s))
RemoveMemberN(n, key) ==
  IF n.cap = 0 THEN [n |-> n, ok |-> FALSE]
  ELSE
    LET viaMap == n.map.on
        me  == n.map.e
        mj  == IF viaMap THEN (LET ix == {j \in 1..Len(me) : me[j][1] = key} IN IF ix = {} THEN 0 ELSE Min(ix)) ELSE 0
        idx == IF viaMap THEN (IF mj = 0 THEN 0 ELSE me[mj][2] + 1) ELSE LinearFind(n, key)
    IN IF idx = 0 THEN [n |-> n, ok |-> FALSE]
       ELSE
         LET map1 == IF viaMap THEN DropAt(me, mj) ELSE <<>>          \* erase(it)
             tail == Len(n.m)
         IN IF idx # tail THEN
              LET m2 == [i \in 1..(tail - 1) |-> IF i = idx THEN n.m[tail] ELSE n.m[i]]
                  tkey == n.m[tail].k.b
                  \* erase the tail's entry: first entry with tail's key whose index is Size()-1
                  ej == IF viaMap THEN (LET ix == {j \in 1..Len(map1) : map1[j][1] = tkey /\ map1[j][2] = tail - 1}
                                         IN IF ix = {} THEN 0 ELSE Min(ix)) ELSE 0
                  map2 == IF ~viaMap THEN NoMap
                          ELSE MkMap(Append(IF ej = 0 THEN map1 ELSE DropAt(map1, ej), <<tkey, idx - 1>>))
              IN [n |-> ObjN(m2, n.cap, map2), ok |-> TRUE]
            ELSE [n |-> ObjN(SubSeq(n.m, 1, tail - 1), n.cap, IF viaMap THEN MkMap(map1) ELSE NoMap), ok |-> TRUE]

EraseMemberN(n, i, j) ==                                                 \* :764-785 (map destroyed first)
  IF j - i >= Len(n.m) THEN ObjN(<<>>, 0, NoMap)
  ELSE ObjN(SubSeq(n.m, 1, i) \o SubSeq(n.m, j + 1, Len(n.m)), n.cap, NoMap)
MemberReserveN(n, c) == IF c > n.cap THEN ObjN(n.m, c, IF n.cap = 0 THEN NoMap ELSE n.map) ELSE n   \* :478-490
CreateMapN(n) ==                                                         \* :277-296
  LET n1 == IF n.cap = 0 THEN MemberReserveN(n, 16) ELSE n IN
  IF n1.map.on THEN n1
  ELSE ObjN(n1.m, n1.cap, MkMap([i \in 1..Len(n1.m) |-> <<n1.m[i].k.b, i - 1>>]))
DestroyMapN(n) == ObjN(n.m, n.cap, NoMap)                                \* :298-305

\* ------------------------------------------------------------------ R-operations on Abs values
RPush(v, x) == [k |-> "arr", e |-> Append(v.e, x)]
RPop(v) == [k |-> "arr", e |-> SubSeq(v.e, 1, Len(v.e) - 1)]
RErase(v, i, j) == [k |-> "arr", e |-> SubSeq(v.e, 1, i) \o SubSeq(v.e, j + 1, Len(v.e))]
RAdd(v, key, x) == [k |-> "obj", m |-> Append(v.m, <<key, x>>)]
\* RemoveMember moves the last member into the hole; which of several equal keys goes is left
\* open by the property when a map exists (idx is the one the implementation chose)
RRemoveAt(v, idx) ==
  LET tail == Len(v.m) IN
  [k |-> "obj", m |-> IF idx # tail THEN [i \in 1..(tail - 1) |-> IF i = idx THEN v.m[tail] ELSE v.m[i]]
                      ELSE SubSeq(v.m, 1, tail - 1)]
REraseM(v, i, j) == [k |-> "obj", m |-> SubSeq(v.m, 1, i) \o SubSeq(v.m, j + 1, Len(v.m))]
RClear(v) == IF v.k = "arr" THEN [k |-> "arr", e |-> <<>>] ELSE [k |-> "obj", m |-> <<>>]

\* ------------------------------------------------------------------ addressing: cursor c
\*   c = 0: root itself;  c = -1: aux;  c >= 1: child c of root (element c / value of member c)
ChildOf(n, c) == IF IsArr(n) THEN n.e[c] ELSE n.m[c].v
WithChild(n, c, x) ==
  IF IsArr(n) THEN ArrN([i \in 1..Len(n.e) |-> IF i = c THEN x ELSE n.e[i]], n.cap)
  ELSE ObjN([i \in 1..Len(n.m) |-> IF i = c THEN [k |-> n.m[i].k, v |-> x] ELSE n.m[i]], n.cap, n.map)
RChildOf(v, c) == IF v.k = "arr" THEN v.e[c] ELSE v.m[c][2]
RWithChild(v, c, x) ==
  IF v.k = "arr" THEN [k |-> "arr", e |-> [i \in 1..Len(v.e) |-> IF i = c THEN x ELSE v.e[i]]]
  ELSE [k |-> "obj", m |-> [i \in 1..Len(v.m) |-> IF i = c THEN <<v.m[i][1], x>> ELSE v.m[i]]]

Cursors == {-1, 0} \cup (IF IsArr(root) \/ IsObj(root) THEN 1..Size(root) ELSE {})
Target(c) == IF c = 0 THEN root ELSE IF c = -1 THEN aux ELSE ChildOf(root, c)
RTarget(c) == IF c = 0 THEN rroot ELSE IF c = -1 THEN raux ELSE RChildOf(rroot, c)

\* replace the target by node x / value rx; ledger moves by the difference in owned blocks
\* (everything the old target owned and x does not contain was freed; everything new in x was
\* allocated): this is exactly what destroy() + construction do in the code.
SetTarget(c, x, rx, lbl) ==
  /\ root' = IF c = 0 THEN x ELSE IF c >= 1 THEN WithChild(root, c, x) ELSE root
  /\ aux'  = IF c = -1 THEN x ELSE aux
  /\ rroot' = IF c = 0 THEN rx ELSE IF c >= 1 THEN RWithChild(rroot, c, rx) ELSE rroot
  /\ raux'  = IF c = -1 THEN rx ELSE raux
  /\ nlive' = nlive + Blocks(x) - Blocks(Target(c))
  /\ last' = lbl

ScalarPool == Scalars

\* ------------------------------------------------------------------ actions
Init == /\ root = Null /\ aux = Null /\ nlive = 0
        /\ rroot = Abs(Null) /\ raux = Abs(Null)
        /\ last = [op |-> "init"]

SetScalar == \E c \in Cursors, s \in ScalarPool :
  SetTarget(c, s, Abs(s), [op |-> "set", c |-> c, v |-> s])
SetString == \E c \in Cursors, b \in StrBytes, cp \in BOOLEAN :
  LET s == Str(b, IF cp THEN "free" ELSE "const") IN
  SetTarget(c, s, Abs(s), [op |-> "setstr", c |-> c, b |-> b, copy |-> cp])
SetArray == \E c \in Cursors : SetTarget(c, ArrN(<<>>, 0), Abs(ArrN(<<>>, 0)), [op |-> "setarr", c |-> c])
SetObject == \E c \in Cursors :
  SetTarget(c, ObjN(<<>>, 0, NoMap), Abs(ObjN(<<>>, 0, NoMap)), [op |-> "setobj", c |-> c])

\* PushBack(std::move(aux)): aux is left null (rawAssign)
PushBack == \E c \in Cursors \ {-1} :
  /\ IsArr(Target(c))
  /\ LET x == PushBackN(Target(c), aux) rx == RPush(RTarget(c), raux) IN
     /\ root' = IF c = 0 THEN x ELSE WithChild(root, c, x)
     /\ rroot' = IF c = 0 THEN rx ELSE RWithChild(rroot, c, rx)
     /\ aux' = Null /\ raux' = Abs(Null)
     /\ nlive' = nlive + (IF Target(c).cap = 0 THEN 1 ELSE 0)
     /\ last' = [op |-> "pushback", c |-> c]
PopBack == \E c \in Cursors :
  /\ IsArr(Target(c)) /\ Size(Target(c)) > 0
  /\ SetTarget(c, PopBackN(Target(c)), RPop(RTarget(c)), [op |-> "popback", c |-> c])
Erase == \E c \in Cursors :
  /\ IsArr(Target(c))
  /\ \E i \in 0..Size(Target(c)) : \E j \in i..Size(Target(c)) :
       SetTarget(c, EraseN(Target(c), i, j), RErase(RTarget(c), i, j), [op |-> "erase", c |-> c, i |-> i, j |-> j])
Reserve == \E c \in Cursors, n \in {0, 1, 3, 17} :
  /\ IsArr(Target(c))
  /\ SetTarget(c, ReserveN(Target(c), n), RTarget(c), [op |-> "reserve", c |-> c, n |-> n])
Clear == \E c \in Cursors :
  /\ IsArr(Target(c)) \/ IsObj(Target(c))
  /\ SetTarget(c, ClearN(Target(c)), RClear(RTarget(c)), [op |-> "clear", c |-> c])

AddMember == \E c \in Cursors \ {-1}, key \in KeyPool, cp \in BOOLEAN :
  /\ IsObj(Target(c))
  /\ LET x == AddMemberN(Target(c), key, aux, cp) rx == RAdd(RTarget(c), key, raux) IN
     /\ root' = IF c = 0 THEN x ELSE WithChild(root, c, x)
     /\ rroot' = IF c = 0 THEN rx ELSE RWithChild(rroot, c, rx)
     /\ aux' = Null /\ raux' = Abs(Null)
     /\ nlive' = nlive + Blocks(x) - Blocks(Target(c)) - Blocks(aux)
     /\ last' = [op |-> "addmember", c |-> c, key |-> key, copy |-> cp]
RemoveMember == \E c \in Cursors, key \in KeyPool :
  /\ IsObj(Target(c))
  /\ LET r == RemoveMemberN(Target(c), key)
         \* which member went: the one the implementation chose (first match; with a map and
         \* duplicate keys the property leaves the choice open)
         idx == IF Target(c).cap = 0 THEN 0 ELSE IFind(Target(c), key)
     IN SetTarget(c, r.n, IF r.ok THEN RRemoveAt(RTarget(c), idx) ELSE RTarget(c),
                  [op |-> "removemember", c |-> c, key |-> key, ret |-> r.ok])
EraseMember == \E c \in Cursors :
  /\ IsObj(Target(c))
  /\ \E i \in 0..Size(Target(c)) : \E j \in i..Size(Target(c)) :
       SetTarget(c, EraseMemberN(Target(c), i, j), REraseM(RTarget(c), i, j),
                 [op |-> "erasemember", c |-> c, i |-> i, j |-> j])
MemberReserve == \E c \in Cursors, n \in {0, 1, 3, 17} :
  /\ IsObj(Target(c))
  /\ SetTarget(c, MemberReserveN(Target(c), n), RTarget(c), [op |-> "memberreserve", c |-> c, n |-> n])
CreateMap == \E c \in Cursors :
  /\ IsObj(Target(c))
  /\ SetTarget(c, CreateMapN(Target(c)), RTarget(c), [op |-> "createmap", c |-> c])
DestroyMap == \E c \in Cursors :
  /\ IsObj(Target(c))
  /\ SetTarget(c, DestroyMapN(Target(c)), RTarget(c), [op |-> "destroymap", c |-> c])

\* aux.CopyFrom(target) and target.CopyFrom(aux): deep copies
CopyToAux == \E c \in Cursors \ {-1} :
  SetTarget(-1, Copy(Target(c)), RTarget(c), [op |-> "copytoaux", c |-> c])
CopyFromAux == \E c \in Cursors \ {-1} :
  SetTarget(c, Copy(aux), raux, [op |-> "copyfromaux", c |-> c])
CopyToAuxOwn == \E c \in Cursors \ {-1} :
  SetTarget(-1, CopyOwn(Target(c)), RTarget(c), [op |-> "copytoauxown", c |-> c])
CopyFromAuxOwn == \E c \in Cursors \ {-1} :
  SetTarget(c, CopyOwn(aux), raux, [op |-> "copyfromauxown", c |-> c])
\* target.Swap(aux)
SwapAux == \E c \in Cursors \ {-1} :
  /\ root' = IF c = 0 THEN aux ELSE WithChild(root, c, aux)
  /\ rroot' = IF c = 0 THEN raux ELSE RWithChild(rroot, c, raux)
  /\ aux' = Target(c) /\ raux' = RTarget(c)
  /\ nlive' = nlive
  /\ last' = [op |-> "swapaux", c |-> c]
\* root = std::move(root[c])  (source is a sub-node of the target: the "temporary dance" :146-158)
MoveChildUp == \E c \in Cursors \ {-1, 0} :
  /\ root' = ChildOf(root, c) /\ rroot' = RChildOf(rroot, c)
  /\ UNCHANGED <<aux, raux>>
  /\ nlive' = nlive - (Blocks(root) - Blocks(ChildOf(root, c)))
  /\ last' = [op |-> "movechildup", c |-> c]
\* aux = std::move(target)   (element move-out; target is left null)
MoveToAux == \E c \in Cursors \ {-1} :
  /\ root' = IF c = 0 THEN Null ELSE WithChild(root, c, Null)
  /\ rroot' = IF c = 0 THEN Abs(Null) ELSE RWithChild(rroot, c, Abs(Null))
  /\ aux' = Target(c) /\ raux' = RTarget(c)
  /\ nlive' = nlive - Blocks(aux)
  /\ last' = [op |-> "movetoaux", c |-> c]

Next == \/ SetScalar \/ SetString \/ SetArray \/ SetObject
        \/ PushBack \/ PopBack \/ Erase \/ Reserve \/ Clear
        \/ AddMember \/ RemoveMember \/ EraseMember \/ MemberReserve \/ CreateMap \/ DestroyMap
        \/ CopyToAux \/ CopyFromAux \/ CopyToAuxOwn \/ CopyFromAuxOwn \/ SwapAux \/ MoveChildUp \/ MoveToAux

Spec == Init /\ [][Next]_vars

\* ------------------------------------------------------------------ properties
Refines == Abs(root) = rroot /\ Abs(aux) = raux

RECURSIVE AllObjs(_)
AllObjs(n) ==
  CASE n.t = "arr" -> UNION {AllObjs(n.e[i]) : i \in 1..Len(n.e)}
    [] n.t = "obj" -> {n} \cup UNION {AllObjs(n.m[i].v) : i \in 1..Len(n.m)}
    [] OTHER -> {}
RECURSIVE AllConts(_)
AllConts(n) ==
  CASE n.t = "arr" -> {n} \cup UNION {AllConts(n.e[i]) : i \in 1..Len(n.e)}
    [] n.t = "obj" -> {n} \cup UNION {AllConts(n.m[i].v) : i \in 1..Len(n.m)}
    [] OTHER -> {}

MapBag(n) == {<<n.map.e[j][1], n.map.e[j][2]>> : j \in 1..Len(n.map.e)}
MapOk == \A o \in AllObjs(root) \cup AllObjs(aux) :
  o.map.on =>
    /\ Len(o.map.e) = Len(o.m)
    /\ MapBag(o) = {<<o.m[i].k.b, i - 1>> : i \in 1..Len(o.m)}
    /\ o.cap > 0
CapOk == \A n \in AllConts(root) \cup AllConts(aux) : Size(n) <= n.cap
LookupOk == \A o \in AllObjs(root) \cup AllObjs(aux) : \A key \in KeyPool \cup {<<122, 122>>} :
  LET f == IFind(o, key)
      all == {i \in 1..Len(o.m) : o.m[i].k.b = key}
  IN IF all = {} THEN f = 0
     ELSE IF o.map.on /\ Cardinality(all) > 1 THEN f \in all
     ELSE f = Min(all)
LedgerOk == nlive = Blocks(root) + Blocks(aux)

\* R-model of operator== (C18): JSON value equality with number kinds distinguished; objects as
\* key -> value maps regardless of member order (meaningful for duplicate-free objects)
RECURSIVE RHasDupDeep(_)
RHasDupDeep(v) ==
  CASE v.k = "arr" -> \E i \in 1..Len(v.e) : RHasDupDeep(v.e[i])
    [] v.k = "obj" -> RHasDup(v) \/ \E i \in 1..Len(v.m) : RHasDupDeep(v.m[i][2])
    [] OTHER -> FALSE
RECURSIVE REq(_, _)
REq(a, b) ==
  IF a.k # b.k THEN FALSE
  ELSE CASE a.k = "arr" -> Len(a.e) = Len(b.e) /\ \A i \in 1..Len(a.e) : REq(a.e[i], b.e[i])
         [] a.k = "obj" -> /\ Len(a.m) = Len(b.m)
                           /\ \A i \in 1..Len(a.m) :
                                \E j \in 1..Len(b.m) : a.m[i][1] = b.m[j][1] /\ REq(a.m[i][2], b.m[j][2])
         [] OTHER -> a = b

\* I-model of operator== (dynamicnode.h:168-229): size check + per-member lookup in rhs (through
\* rhs's map when it has one), arrays pairwise, strings by bytes whatever the ownership kind,
\* numbers by kind and value, other scalars by type
RECURSIVE IEq(_, _)
IEq(a, b) ==
  LET bt(n) == IF n.t \in {"true", "false"} THEN "bool" ELSE IF n.t \in {"uint", "sint", "real"} THEN "num" ELSE n.t IN
  IF bt(a) # bt(b) THEN FALSE
  ELSE CASE a.t = "obj" -> /\ Len(a.m) = Len(b.m)
                           /\ \A i \in 1..Len(a.m) :
                                LET j == IFind(b, a.m[i].k.b) IN j # 0 /\ IEq(a.m[i].v, b.m[j].v)
         [] a.t = "arr" -> Len(a.e) = Len(b.e) /\ \A i \in 1..Len(a.e) : IEq(a.e[i], b.e[i])
         [] a.t = "str" -> a.b = b.b
         [] a.t \in {"uint", "sint", "real"} -> a.t = b.t /\ a.n = b.n
         [] OTHER -> a.t = b.t
\* C18 on the design: for duplicate-free values the implementation's equality is JSON equality,
\* in both directions, whatever the capacities, ownership kinds and maps
EqOk == (~RHasDupDeep(rroot) /\ ~RHasDupDeep(raux)) =>
          /\ IEq(root, aux) = REq(rroot, raux)
          /\ IEq(aux, root) = REq(rroot, raux)
          /\ IEq(root, root) /\ IEq(root, Copy(root))

\* a copy made with copyString = true borrows nothing
RECURSIVE Borrows(_)
Borrows(n) ==
  CASE n.t = "str" -> n.own # "free"
    [] n.t = "arr" -> \E i \in 1..Len(n.e) : Borrows(n.e[i])
    [] n.t = "obj" -> \E i \in 1..Len(n.m) : Borrows(n.m[i].k) \/ Borrows(n.m[i].v)
    [] OTHER -> FALSE
OwnOk == /\ last.op = "copytoauxown" => ~Borrows(aux)
         /\ last.op = "copyfromauxown" => ~Borrows(Target(last.c))

Inv == Refines /\ MapOk /\ CapOk /\ LookupOk /\ LedgerOk /\ EqOk /\ OwnOk

Constraint == /\ \A n \in AllConts(root) \cup AllConts(aux) : Size(n) <= MaxSize
              /\ Nodes(root) + Nodes(aux) <= MaxNodes
=============================================================================
