-------------------------------- MODULE Sonic --------------------------------
(***************************************************************************)
(* Root module: the life cycle of one document.                            *)
(*                                                                         *)
(*   text --Parse--> tree --mutation API--> tree --Dump--> text --Parse--> *)
(*                                                                         *)
(* It composes the parts that are specified separately:                    *)
(*   JsonText  (what a text denotes, which texts are JSON)                 *)
(*   Render    (canonical minified text of a value, string quoting)        *)
(*   Dom       (the mutation API on the node representation, the ledger)   *)
(* by adding to Dom's state machine the two operations that connect trees  *)
(* and texts:                                                              *)
(*   ParseRoot(t)  Document::Parse (generic_document.h:125-129, 192-226):  *)
(*                 the old tree is destroyed and the old text buffer is    *)
(*                 returned; a new buffer is taken; on a JSON text the     *)
(*                 root becomes the tree the SAX handler builds (exact     *)
(*                 capacities, strings that are views into the buffer, no  *)
(*                 lookup maps: handler.h:162-203); otherwise root is null *)
(*                 and an error is reported.                               *)
(*   Dump          Serialize: an observation; what it must denote is the   *)
(*                 R-state.                                                *)
(*                                                                         *)
(* ASSUMPTION (documented usage): ParseRoot is only taken when no string   *)
(* view into the document's buffer has been moved out of the document      *)
(* (into aux): those views die with the buffer.                            *)
(*                                                                         *)
(* Properties on top of Dom's:                                             *)
(*   SLedgerOk   blocks outstanding = blocks of root and aux + the buffer  *)
(*   ParseOk     after ParseRoot(t): R-state of root = the value t denotes *)
(*               (C03) / null when t is not JSON (C01), whatever the       *)
(*               document held before                                      *)
(*   RoundTrip   the canonical text of the R-state is JSON and denotes the *)
(*               R-state: Parse o Dump is the identity on values (C06)     *)
(***************************************************************************)
EXTENDS Dom

JT == INSTANCE Render

CONSTANTS Texts          \* byte sequences offered to Parse (JSON and not)
VARIABLES buf            \* 1 iff the document owns a text buffer (str_)

svars == <<vars, buf>>

\* ------------------------------------------------------------------ numbers of the small pools
DigVal(d) == FoldLeft(LAMBDA a, x : a * 10 + x, 0, d)
RECURSIVE Pow10(_)
Pow10(k) == IF k <= 0 THEN 1 ELSE 10 * Pow10(k - 1)
RECURSIVE DigitsOf(_)
DigitsOf(n) == IF n < 10 THEN <<48 + n>> ELSE DigitsOf(n \div 10) \o <<48 + (n % 10)>>

NegZero == -1000001      \* Dom!Real(NegZero) stands for the double -0.0

\* twice the value of a "real" number token, when that is an integer (the pools only hold such)
\* (IF, not \/: inside an action TLC explores every disjunct, and Pow10 of a negative number does not terminate)
TwiceOk(v) == IF v.e >= 0 THEN TRUE ELSE (2 * DigVal(v.d)) % Pow10(-v.e) = 0
Twice(v) ==
  LET m == IF v.e >= 0 THEN 2 * DigVal(v.d) * Pow10(v.e) ELSE (2 * DigVal(v.d)) \div Pow10(-v.e) IN
  IF m = 0 THEN (IF v.neg THEN NegZero ELSE 0) ELSE IF v.neg THEN -m ELSE m

\* ------------------------------------------------------------------ the tree the parser builds for a denoted value
RECURSIVE FromJT(_)
FromJT(v) ==
  CASE v.k = "num" ->
         (CASE v.kind = "uint" -> Uint(DigVal(v.d))
            [] v.kind = "sint" -> Sint(-DigVal(v.d))
            [] v.kind = "negzero" -> Uint(0)      \* "-0": the property allows either integer kind; the pools avoid it
            [] OTHER -> Real(Twice(v)))
    [] v.k = "str" -> Str(v.b, "copy")
    [] v.k = "arr" -> ArrN([i \in 1..Len(v.e) |-> FromJT(v.e[i])], Len(v.e))
    [] v.k = "obj" -> ObjN([i \in 1..Len(v.m) |-> [k |-> Str(v.m[i][1], "copy"), v |-> FromJT(v.m[i][2])]], Len(v.m), NoMap)
    [] v.k = "true" -> Bool(TRUE)
    [] v.k = "false" -> Bool(FALSE)
    [] OTHER -> Null

\* every number in a denoted value is one the integer encoding of Dom can hold
RECURSIVE Encodable(_)
Encodable(v) ==
  CASE v.k = "num" -> (IF v.kind = "real" THEN TwiceOk(v) ELSE TRUE) /\ Len(v.d) <= 8
    [] v.k = "arr" -> \A i \in 1..Len(v.e) : Encodable(v.e[i])
    [] v.k = "obj" -> \A i \in 1..Len(v.m) : Encodable(v.m[i][2])
    [] OTHER -> TRUE

\* ------------------------------------------------------------------ canonical text of an R-value (Dump)
RealText(h) ==
  IF h = NegZero THEN <<45, 48, 46, 48>>
  ELSE LET a == IF h < 0 THEN -h ELSE h
           body == DigitsOf(a \div 2) \o <<46>> \o (IF a % 2 = 0 THEN <<48>> ELSE <<53>>)
       IN IF h < 0 THEN <<45>> \o body ELSE body
RECURSIVE TreeOf(_)
TreeOf(v) ==
  CASE v.k = "arr" -> JT!Arr([i \in 1..Len(v.e) |-> TreeOf(v.e[i])])
    [] v.k = "obj" -> JT!Obj([i \in 1..Len(v.m) |-> <<JT!Quote(v.m[i][1]), TreeOf(v.m[i][2])>>])
    [] v.k = "str" -> JT!Tok(JT!Quote(v.b))
    [] v.k = "uint" -> JT!Tok(DigitsOf(v.n))
    [] v.k = "sint" -> JT!Tok(<<45>> \o DigitsOf(-v.n))
    [] v.k = "real" -> JT!Tok(RealText(v.n))
    [] v.k = "true" -> JT!Tok(<<116, 114, 117, 101>>)
    [] v.k = "false" -> JT!Tok(<<102, 97, 108, 115, 101>>)
    [] OTHER -> JT!Tok(<<110, 117, 108, 108>>)
DumpOf(v) == JT!RenderL(TreeOf(v), 0)

\* ------------------------------------------------------------------ views
RECURSIVE HasView(_)
HasView(n) ==
  CASE n.t = "str" -> n.own = "copy"
    [] n.t = "arr" -> \E i \in 1..Len(n.e) : HasView(n.e[i])
    [] n.t = "obj" -> \E i \in 1..Len(n.m) : HasView(n.m[i].k) \/ HasView(n.m[i].v)
    [] OTHER -> FALSE

\* ------------------------------------------------------------------ actions
SInit == Init /\ buf = 0

\* (bound variables of \E over singleton sets force TLC to evaluate the parse once, to a value, instead of
\* re-evaluating a lazy LET definition at every use inside the recursive operators)
ParseRoot == \E t \in Texts : \E r \in {JT!ParseText(t)} :
  /\ ~HasView(aux)
  /\ (IF r.ok THEN Encodable(r.v) ELSE TRUE) = TRUE     \* the pools are chosen so; otherwise the step is not modelled
  /\ \E x \in {IF r.ok THEN FromJT(r.v) ELSE Null} :
        /\ root' = x /\ rroot' = Abs(x)
        /\ buf' = 1
        /\ nlive' = nlive - Blocks(root) - buf + 1 + Blocks(x)
        /\ last' = [op |-> "parse", c |-> 0, b |-> t, ret |-> r.ok]
        /\ UNCHANGED <<aux, raux>>

\* Dump is an observation: the state does not change, the label carries what the text must be
Dump == \E c \in Cursors :
  /\ last' = [op |-> "dump", c |-> c, b |-> DumpOf(RTarget(c))]
  /\ UNCHANGED <<root, aux, nlive, rroot, raux, buf>>

DomStep == Next /\ UNCHANGED buf
SNext == DomStep \/ ParseRoot \/ Dump
SSpec == SInit /\ [][SNext]_svars

\* ------------------------------------------------------------------ properties
SLedgerOk == nlive = Blocks(root) + Blocks(aux) + buf

\* R-value of a denoted value without going through the I-model
RECURSIVE RFromJT(_)
RFromJT(v) ==
  CASE v.k = "num" ->
         (CASE v.kind = "uint" -> [k |-> "uint", n |-> DigVal(v.d)]
            [] v.kind = "sint" -> [k |-> "sint", n |-> -DigVal(v.d)]
            [] v.kind = "negzero" -> [k |-> "uint", n |-> 0]
            [] OTHER -> [k |-> "real", n |-> Twice(v)])
    [] v.k = "arr" -> [k |-> "arr", e |-> [i \in 1..Len(v.e) |-> RFromJT(v.e[i])]]
    [] v.k = "obj" -> [k |-> "obj", m |-> [i \in 1..Len(v.m) |-> <<v.m[i][1], RFromJT(v.m[i][2])>>]]
    [] v.k = "str" -> [k |-> "str", b |-> v.b]
    [] OTHER -> [k |-> v.k]

ParseOk == last.op = "parse" =>
  \A r \in {JT!ParseText(last.b)} :
  /\ last.ret = r.ok
  /\ rroot = (IF r.ok THEN RFromJT(r.v) ELSE [k |-> "null"])
  /\ buf = 1

RoundTripOf(v) ==
  \A r \in {JT!ParseText(DumpOf(v))} : r.ok /\ RFromJT(r.v) = v
RoundTrip == RoundTripOf(rroot) /\ RoundTripOf(raux)

\* the parser's trees satisfy the representation invariants the mutation API relies on
SInv == Refines /\ MapOk /\ CapOk /\ LookupOk /\ SLedgerOk /\ EqOk /\ OwnOk /\ ParseOk /\ RoundTrip
\* for behaviour generation (RoundTrip and EqOk are expensive on large trees and are model-checked exhaustively instead)
SInvLight == Refines /\ MapOk /\ CapOk /\ SLedgerOk /\ OwnOk /\ ParseOk
=============================================================================
