CONSTANTS AS = {0, 1, 31, 62} BS = {0, 1}
INIT InitOD
NEXT NextOD
INVARIANT EmitOD
INVARIANT AllValid
CHECK_DEADLOCK FALSE
