------------------------------ MODULE JsonValue ------------------------------
(***************************************************************************)
(* Operations on denoted JSON values (the records produced by JsonText):   *)
(*   Lookup(v, path)   JSON-pointer style lookup (R-model for C10 and for  *)
(*                     AtPointer/FindMember in C12): first matching member *)
(*                     for duplicate keys; negative index, index >= size,  *)
(*                     wrong kind and missing key do not resolve.          *)
(*   JsonEq(a, b)      equality as JSON values with number kinds           *)
(*                     distinguished (R-model for C18).                    *)
(* A path is a sequence of steps [k |-> "key", b |-> bytes] or             *)
(* [k |-> "idx", n |-> Int].                                               *)
(***************************************************************************)
EXTENDS JsonText, FiniteSetsExt

KeyStep(b) == [k |-> "key", b |-> b, n |-> 0]
IdxStep(n) == [k |-> "idx", b |-> <<>>, n |-> n]
NotFound == [found |-> FALSE, v |-> NoVal]

RECURSIVE Lookup(_, _)
Lookup(v, p) ==
  IF p = <<>> THEN [found |-> TRUE, v |-> v]
  ELSE LET s == Head(p) IN
    IF s.k = "key" THEN
      IF v.k # "obj" THEN NotFound
      ELSE LET ix == {i \in 1..Len(v.m) : v.m[i][1] = s.b} IN
           IF ix = {} THEN NotFound ELSE Lookup(v.m[Min(ix)][2], Tail(p))
    ELSE IF v.k # "arr" \/ s.n < 0 \/ s.n >= Len(v.e) THEN NotFound
    ELSE Lookup(v.e[s.n + 1], Tail(p))

\* Equality of JSON values (documents without duplicate keys): arrays element-wise in order,
\* objects as key -> value maps regardless of member order, strings by bytes, numbers by kind
\* and exact value, literals by kind.
HasDupKeys(v) == v.k = "obj" /\ \E i, j \in 1..Len(v.m) : i # j /\ v.m[i][1] = v.m[j][1]
RECURSIVE JsonEq(_, _)
JsonEq(a, b) ==
  IF a.k # b.k THEN FALSE
  ELSE CASE a.k = "arr" -> Len(a.e) = Len(b.e) /\ \A i \in 1..Len(a.e) : JsonEq(a.e[i], b.e[i])
         [] a.k = "obj" -> /\ Len(a.m) = Len(b.m)
                           /\ \A i \in 1..Len(a.m) :
                                \E j \in 1..Len(b.m) : a.m[i][1] = b.m[j][1] /\ JsonEq(a.m[i][2], b.m[j][2])
         [] OTHER -> a = b
=============================================================================
