INIT Init
NEXT Next
INVARIANT Accepted
CHECK_DEADLOCK FALSE
