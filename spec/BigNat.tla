------------------------------- MODULE BigNat -------------------------------
(***************************************************************************)
(* Arbitrary-precision naturals for TLC (whose integers are 32-bit).       *)
(* A BigNat is a little-endian sequence of limbs in base B = 10^4 without  *)
(* trailing (most significant) zero limbs; zero is <<>>.                   *)
(* All loops are folds (FoldLeft is Java-overridden in CommunityModules),  *)
(* so no deep recursion; every intermediate product stays below 2^31.      *)
(***************************************************************************)
EXTENDS Naturals, Integers, Sequences, SequencesExt

B == 10000

RECURSIVE Norm(_)
Norm(a) == IF a # <<>> /\ a[Len(a)] = 0 THEN Norm(SubSeq(a, 1, Len(a) - 1)) ELSE a

IsZero(a) == a = <<>>

\* small natural (< 2^31) -> BigNat
RECURSIVE FromNat(_)
FromNat(n) == IF n = 0 THEN <<>> ELSE <<n % B>> \o FromNat(n \div B)

Limb(a, i) == IF i <= Len(a) THEN a[i] ELSE 0
Max2(x, y) == IF x >= y THEN x ELSE y

Add(a, b) ==
  LET n == Max2(Len(a), Len(b))
      r == FoldLeft(LAMBDA acc, i :
                      LET s == Limb(a, i) + Limb(b, i) + acc.c IN
                      [o |-> Append(acc.o, s % B), c |-> s \div B],
                    [o |-> <<>>, c |-> 0], [i \in 1..n |-> i])
  IN IF r.c = 0 THEN r.o ELSE Append(r.o, r.c)

\* requires a >= b
Sub(a, b) ==
  LET r == FoldLeft(LAMBDA acc, i :
                      LET s == a[i] - Limb(b, i) - acc.c IN
                      IF s < 0 THEN [o |-> Append(acc.o, s + B), c |-> 1]
                      ELSE [o |-> Append(acc.o, s), c |-> 0],
                    [o |-> <<>>, c |-> 0], [i \in 1..Len(a) |-> i])
  IN Norm(r.o)

\* -1, 0, 1
Cmp(a, b) ==
  IF Len(a) # Len(b) THEN (IF Len(a) < Len(b) THEN -1 ELSE 1)
  ELSE FoldLeft(LAMBDA acc, i :
                  LET j == Len(a) + 1 - i IN
                  IF acc # 0 THEN acc
                  ELSE IF a[j] < b[j] THEN -1 ELSE IF a[j] > b[j] THEN 1 ELSE 0,
                0, [i \in 1..Len(a) |-> i])

Le(a, b) == Cmp(a, b) <= 0
Lt(a, b) == Cmp(a, b) < 0

\* 0 <= k <= 200000  (limb * k + carry < 2^31)
MulSmall(a, k) ==
  IF k = 0 \/ a = <<>> THEN <<>>
  ELSE
    LET r == FoldLeft(LAMBDA acc, x :
                        LET p == x * k + acc.c IN
                        [o |-> Append(acc.o, p % B), c |-> p \div B],
                      [o |-> <<>>, c |-> 0], a)
    IN r.o \o FromNat(r.c)

AddSmall(a, k) == Add(a, FromNat(k))

ShiftLimbs(a, n) == IF a = <<>> THEN <<>> ELSE [i \in 1..n |-> 0] \o a

Mul(a, b) ==
  IF a = <<>> \/ b = <<>> THEN <<>>
  ELSE LET s == IF Len(a) <= Len(b) THEN a ELSE b     \* iterate over the shorter
           l == IF Len(a) <= Len(b) THEN b ELSE a
       IN FoldLeft(LAMBDA acc, i :
                     IF s[i] = 0 THEN acc
                     ELSE Add(acc, ShiftLimbs(MulSmall(l, s[i]), i - 1)),
                   <<>>, [i \in 1..Len(s) |-> i])

\* k^n by repeated small multiplication in steps of k^st  (k^st <= 200000)
PowStep(k, st, kst, n) ==
  LET q == n \div st
      r == n % st
      big == FoldLeft(LAMBDA acc, i : MulSmall(acc, kst), <<1>>, [i \in 1..q |-> i])
  IN FoldLeft(LAMBDA acc, i : MulSmall(acc, k), big, [i \in 1..r |-> i])

Pow2(n)  == PowStep(2, 17, 131072, n)
Pow5(n)  == PowStep(5, 7, 78125, n)
Pow10(n) == PowStep(10, 5, 100000, n)

\* decimal digit sequence, most significant first -> BigNat
FromDigits(d) ==
  LET n  == Len(d)
      nl == (n + 3) \div 4
  IN Norm([i \in 1..nl |->
             LET hi == n - 4 * (i - 1)         \* index of the least significant digit of limb i
                 g(j) == IF hi - j >= 1 THEN d[hi - j] ELSE 0
             IN g(0) + 10 * g(1) + 100 * g(2) + 1000 * g(3)])

\* BigNat -> decimal digit sequence, most significant first (<<0>> for zero)
RECURSIVE StripLeadingZeros(_)
StripLeadingZeros(d) == IF Len(d) > 1 /\ d[1] = 0 THEN StripLeadingZeros(Tail(d)) ELSE d

P10S(p) == IF p = 3 THEN 1000 ELSE IF p = 2 THEN 100 ELSE IF p = 1 THEN 10 ELSE 1
DigitOf(a, i) ==     \* output digit i (1 = most significant of the top limb)
  LET li == Len(a) - ((i - 1) \div 4)
      p  == 3 - ((i - 1) % 4)
  IN (a[li] \div P10S(p)) % 10

ToDigits(a) ==
  IF a = <<>> THEN <<0>>
  ELSE StripLeadingZeros([i \in 1..(4 * Len(a)) |-> DigitOf(a, i)])

\* 16-bit words, most significant first -> BigNat
FromWords16(w) == FoldLeft(LAMBDA acc, x : AddSmall(MulSmall(acc, 65536), x), <<>>, w)

=============================================================================
