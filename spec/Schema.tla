------------------------------- MODULE Schema -------------------------------
(***************************************************************************)
(* I-model of ParseSchema (C19): the SAX handler SchemaHandler             *)
(* (schema_handler.h) driven by the parser's event stream for a text V     *)
(* over an existing tree E, including the parser's rule that a member      *)
(* whose Key() returns false is skipped without events (parser.h:593-616). *)
(*                                                                         *)
(* Handler state as in the code:                                           *)
(*   cur   cur_node_      the slot the next value goes to (a path) or None *)
(*   par   parent_node_   the existing node being updated, or None         *)
(*   pst   parent_st_     saved parents                                    *)
(*   fc    found_node_count_   members of par matched so far               *)
(*   fst   found_count_st_     saved counts                                *)
(*   fr    the node stack st_/np_/parent_ as a stack of frames of the      *)
(*         containers being built; a frame opened from a slot is the       *)
(*         "parent_ == 0" case of EndObject / EndArray                     *)
(*   ub    the handler was driven outside what it was written for (a key   *)
(*         looked up in, or a slot entered of, the *old* value while a     *)
(*         replacement array is being built): the defect repaired by       *)
(*         5a90f66 (FixArr = FALSE models the code before it); nothing is  *)
(*         predicted after that                                            *)
(*                                                                         *)
(* Deliberate deviation kept in the model because the code has it: an      *)
(* empty object in the text against a non-empty existing object leaves the *)
(* object unchanged (EndObject(0) cannot tell '{}' from "only undeclared   *)
(* keys"): recorded finding C19-empty-text-object.  SchemaMergeDev is the  *)
(* property's SchemaMerge with exactly that deviation.                     *)
(*                                                                         *)
(* FixFound = TRUE is the code after the repair 31fcde9 (EndObject of a    *)
(* rebuilt slot restores the saved found count); with FALSE TLC finds the  *)
(* pair on which later declared keys are skipped.                          *)
(*                                                                         *)
(* Invariants over the pairs of Gen_Schema (checked by MC via Gen_Schema's *)
(* InitS):                                                                 *)
(*   ModelOk     ~ub => result = SchemaMergeDev(E, V)                      *)
(*   UbOnlyKnown  ub => the pair has the recorded shape                    *)
(*   DevOnlyKnown SchemaMergeDev # SchemaMerge => the pair has a '{}'      *)
(*                against a non-empty object at a matched position         *)
(***************************************************************************)
EXTENDS Gen_Schema
CONSTANTS FixFound,   \* TRUE: the code after repair 31fcde9 (EndObject of a rebuilt slot restores the saved found count)
          FixEmpty,   \* TRUE: the code after repair 9e8ca0e (skipped members are counted; '{}' replaces a non-empty object)
          FixArr      \* TRUE: the code after repair 5a90f66 (StartArray leaves update mode while the replacement array is built)

None == <<0>>                      \* "no node" (paths are sequences of indices >= 1)

RECURSIVE GetAt(_, _)
GetAt(v, p) == IF p = <<>> THEN v ELSE GetAt(IF v.k = "obj" THEN v.m[Head(p)][2] ELSE v.e[Head(p)], Tail(p))
RECURSIVE SetAt(_, _, _)
SetAt(v, p, x) ==
  IF p = <<>> THEN x
  ELSE IF v.k = "obj" THEN [v EXCEPT !.m = [i \in 1..Len(v.m) |-> IF i = Head(p) THEN <<v.m[i][1], SetAt(v.m[i][2], Tail(p), x)>> ELSE v.m[i]]]
  ELSE [v EXCEPT !.e = [i \in 1..Len(v.e) |-> IF i = Head(p) THEN SetAt(v.e[i], Tail(p), x) ELSE v.e[i]]]


InitSt(E) == [doc |-> E, cur |-> <<>>, par |-> <<>>, pst |-> <<>>, fc |-> 0, fst |-> <<>>, fr |-> <<>>, ub |-> FALSE]
Ub(s) == [s EXCEPT !.ub = TRUE]

\* a node is pushed on the node stack: it belongs to the innermost frame
PushNode(s, x) ==
  IF s.fr = <<>> THEN Ub(s)
  ELSE [s EXCEPT !.fr = [i \in 1..Len(s.fr) |-> IF i = Len(s.fr) THEN [s.fr[i] EXCEPT !.items = Append(@, x)] ELSE s.fr[i]]]

\* Null / Bool / Uint / Int / Double / String (:118-202)
Scalar(s, x) == IF s.cur # None THEN [s EXCEPT !.doc = SetAt(s.doc, s.cur, x)] ELSE PushNode(s, x)

\* Key (:173-193): result [s, found]
KeyEv(s, key) ==
  IF s.par # None /\ GetAt(s.doc, s.par).k = "obj"
  THEN LET o == GetAt(s.doc, s.par)
           s0 == IF s.fr # <<>> THEN Ub(s) ELSE s        \* looking a key up in the old value while its replacement is being built
       IN IF s.fc >= Len(o.m) THEN [s |-> [s0 EXCEPT !.cur = None], found |-> FALSE]
          ELSE LET idx == KeyIdx(o, key) IN
               IF idx # 0 THEN [s |-> [s0 EXCEPT !.cur = s.par \o <<idx>>, !.fc = s.fc + 1], found |-> TRUE]
               ELSE [s |-> [s0 EXCEPT !.cur = None], found |-> FALSE]
  ELSE [s |-> PushNode([s EXCEPT !.cur = None], [k |-> "str", b |-> key]), found |-> TRUE]

\* StartObject (:204-229)
StartObj(s) ==
  IF s.cur # None
  THEN LET s1 == [s EXCEPT !.pst = Append(@, s.par), !.par = s.cur, !.cur = None]
           o == GetAt(s.doc, s1.par)
           build == o.k # "obj" \/ Len(o.m) = 0
           s2 == IF build THEN [s1 EXCEPT !.pst = Append(@, s1.par), !.par = None] ELSE s1
           s3 == [s2 EXCEPT !.fst = Append(@, s.fc), !.fc = 0]
       IN IF build THEN (IF s.fr # <<>> THEN Ub(s3) ELSE [s3 EXCEPT !.fr = <<[kind |-> "slotobj", items |-> <<>>]>>]) ELSE s3
  ELSE IF s.fr = <<>> THEN Ub(s) ELSE [s EXCEPT !.fr = Append(@, [kind |-> "obj", items |-> <<>>])]

ObjOf(items, pairs) == [k |-> "obj", m |-> [i \in 1..pairs |-> <<items[2 * i - 1].b, items[2 * i]>>]]

\* EndObject (:246-286)
EndObj(s, pairs) ==
  IF s.par # None /\ GetAt(s.doc, s.par).k = "obj"
  THEN IF s.pst = <<>> \/ s.fst = <<>> THEN Ub(s)
       ELSE [s EXCEPT !.doc = IF FixEmpty /\ pairs = 0 THEN SetAt(s.doc, s.par, [k |-> "obj", m |-> <<>>]) ELSE s.doc,
                      !.par = Last(s.pst), !.pst = Front(s.pst), !.cur = None, !.fc = Last(s.fst), !.fst = Front(s.fst)]
  ELSE IF s.fr = <<>> THEN Ub(s)
  ELSE LET f == Last(s.fr) IN
       IF Len(f.items) # 2 * pairs \/ f.kind \in {"arr", "slotarr"} THEN Ub(s)
       ELSE IF f.kind = "slotobj"
       THEN IF Len(s.pst) < 2 THEN Ub(s)
            ELSE LET target == Last(s.pst)
                     pst1 == Front(s.pst)
                     s1 == [s EXCEPT !.doc = SetAt(s.doc, target, ObjOf(f.items, pairs)), !.par = Last(pst1), !.pst = Front(pst1),
                                     !.cur = None, !.fr = <<>>]
                 IN IF FixFound THEN [s1 EXCEPT !.fc = Last(s.fst), !.fst = Front(s.fst)] ELSE s1
       ELSE PushNode([s EXCEPT !.fr = Front(s.fr)], ObjOf(f.items, pairs))

\* StartArray (:231-247)
StartArr(s) ==
  IF s.cur # None
  THEN IF s.fr # <<>> THEN Ub(s)
       ELSE IF FixArr
       THEN [s EXCEPT !.pst = Append(Append(@, s.par), s.cur), !.par = None, !.cur = None, !.fr = <<[kind |-> "slotarr", items |-> <<>>]>>]
       ELSE [s EXCEPT !.pst = Append(@, s.par), !.par = s.cur, !.cur = None, !.fr = <<[kind |-> "slotarr", items |-> <<>>]>>]
  ELSE IF s.fr = <<>> THEN Ub(s) ELSE [s EXCEPT !.fr = Append(@, [kind |-> "arr", items |-> <<>>])]

\* EndArray (:291-325)
EndArr(s, count) ==
  IF s.fr = <<>> THEN Ub(s)
  ELSE LET f == Last(s.fr) IN
       IF Len(f.items) # count \/ f.kind \in {"obj", "slotobj"} THEN Ub(s)
       ELSE IF f.kind = "slotarr"
       THEN IF FixArr
            THEN IF Len(s.pst) < 2 THEN Ub(s)
                 ELSE LET slot == Last(s.pst) pst1 == Front(s.pst) IN
                      [s EXCEPT !.doc = SetAt(s.doc, slot, [k |-> "arr", e |-> f.items]), !.cur = slot, !.par = Last(pst1),
                                !.pst = Front(pst1), !.fr = <<>>]
            ELSE IF s.pst = <<>> \/ s.par = None THEN Ub(s)
            ELSE [s EXCEPT !.doc = SetAt(s.doc, s.par, [k |-> "arr", e |-> f.items]), !.cur = s.par, !.par = Last(s.pst),
                           !.pst = Front(s.pst), !.fr = <<>>]
       ELSE PushNode([s EXCEPT !.fr = Front(s.fr)], [k |-> "arr", e |-> f.items])

\* the event stream of a value, with the parser's skipping of members whose key is not found
RECURSIVE Feed(_, _), FeedMembers(_, _, _, _), FeedElems(_, _, _)
Feed(s, v) ==
  IF s.ub THEN s
  ELSE CASE v.k = "obj" -> (LET r == FeedMembers(StartObj(s), v.m, 1, 0) IN IF r.s.ub THEN r.s ELSE EndObj(r.s, r.cnt))
         [] v.k = "arr" -> (LET s1 == FeedElems(StartArr(s), v.e, 1) IN IF s1.ub THEN s1 ELSE EndArr(s1, Len(v.e)))
         [] OTHER -> Scalar(s, v)
FeedMembers(s, m, i, cnt) ==
  IF s.ub \/ i > Len(m) THEN [s |-> s, cnt |-> cnt]
  ELSE LET r == KeyEv(s, m[i][1]) IN
       IF r.found THEN FeedMembers(Feed(r.s, m[i][2]), m, i + 1, cnt + 1)
       ELSE FeedMembers(r.s, m, i + 1, IF FixEmpty THEN cnt + 1 ELSE cnt)      \* parser.h: a skipped member is counted since 9e8ca0e
FeedElems(s, e, i) == IF s.ub \/ i > Len(e) THEN s ELSE FeedElems(Feed(s, e[i]), e, i + 1)

ISchema(E, V) == Feed(InitSt(E), V)

\* ------------------------------------------------------------------ R-side
RECURSIVE SchemaMergeDev(_, _)
SchemaMergeDev(E, V) ==
  IF IsNEObj(E) /\ V.k = "obj"
  THEN IF V.m = <<>> THEN E
       ELSE [k |-> "obj", m |-> [i \in 1..Len(E.m) |->
               LET j == KeyIdx(V, E.m[i][1]) IN
               IF j = 0 THEN E.m[i] ELSE <<E.m[i][1], SchemaMergeDev(E.m[i][2], V.m[j][2])>>]]
  ELSE V

RECURSIVE HasObjInside(_)
HasObjInside(v) == v.k = "obj" \/ (v.k = "arr" /\ \E i \in 1..Len(v.e) : HasObjInside(v.e[i]))
\* the recorded shapes, computed from the two values only
RECURSIVE ArrObjShape(_, _), EmptyObjShape(_, _)
ArrObjShape(E, V) ==
  \/ E.k = "obj" /\ V.k = "arr" /\ HasObjInside(V)
  \/ IsNEObj(E) /\ IsNEObj(V) /\ \E i \in 1..Len(E.m) : LET j == KeyIdx(V, E.m[i][1]) IN j # 0 /\ ArrObjShape(E.m[i][2], V.m[j][2])
EmptyObjShape(E, V) ==
  \/ IsNEObj(E) /\ V.k = "obj" /\ V.m = <<>>
  \/ IsNEObj(E) /\ IsNEObj(V) /\ \E i \in 1..Len(E.m) : LET j == KeyIdx(V, E.m[i][1]) IN j # 0 /\ EmptyObjShape(E.m[i][2], V.m[j][2])

PairOk(E, V) ==
  \A r \in {ISchema(E, V)} :
    /\ ~r.ub => r.doc = (IF FixEmpty THEN SchemaMerge(E, V) ELSE SchemaMergeDev(E, V))
    /\ r.ub => (~FixArr /\ ArrObjShape(E, V))      \* with the repaired StartArray the handler never leaves its domain
    /\ SchemaMergeDev(E, V) # SchemaMerge(E, V) => EmptyObjShape(E, V)
ModelOk == \A E \in {DenT(tree)} : \A V \in {DenT(tree2)} : PairOk(E, V)
=============================================================================
