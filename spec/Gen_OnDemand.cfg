CONSTANTS MaxNodes = 3 Pool = 3 Layouts = {0, 2} Wide = FALSE D = 2
INIT InitOD
NEXT NextOD
INVARIANT EmitOD
CHECK_DEADLOCK FALSE
