CONSTANTS Docs = {1, 2} TreeSizes = {0, 2} FixSchemaLeak = FALSE
SPECIFICATION Spec
INVARIANT Exact
INVARIANT NoDangling
INVARIANT NoLeak
CHECK_DEADLOCK FALSE
