--------------------------------- MODULE Pool ---------------------------------
(***************************************************************************)
(* MemoryPoolAllocator (allocator.h:136-450) as a state machine.           *)
(*                                                                         *)
(* State: the shared pool (chunk list, head first; only the head serves),  *)
(* the blocks handed out since the last Clear, the memory contents at      *)
(* 8-byte granularity (each word holds the tag of the block that last      *)
(* wrote it), the number of allocator handles sharing the pool (refcount)  *)
(* and the chunk policy state.                                             *)
(*                                                                         *)
(* Actions: Malloc(n), Realloc(b, new), WriteBlock(b) (the owner fills     *)
(* its block), Clear, CopyHandle, DropHandle.                              *)
(*                                                                         *)
(* Invariants (C16): every block is 8-aligned, lies wholly inside one      *)
(* chunk, overlaps no other live block; a live block's words hold its own  *)
(* tag (contents never disturbed by later allocations); Realloc keeps the  *)
(* first min(old,new) bytes; zero size gives null; Size() and Capacity()   *)
(* are the sums over the chunk list; the pool exists iff refcount > 0.     *)
(***************************************************************************)
EXTENDS Naturals, Integers, Sequences, FiniteSets, SequencesExt, FiniteSetsExt, TLC

CONSTANTS ChunkCap,     \* chunkSize passed to the constructor (bytes)
          Adaptive,     \* TRUE: AdaptiveChunkPolicy with MaxChunkCap, FALSE: SimpleChunkPolicy
          MaxChunkCap,  \* SONIC_ALLOCATOR_MAX_CHUNK_CAPACITY (adaptive policy only)
          UserBuf,      \* capacity of a user-supplied first chunk in bytes, 0 = none (own buffer)
          Sizes,        \* request sizes explored
          MaxBlocks,    \* bound on blocks ever handed out since Init (state constraint)
          MaxHandles,
          MaxSteps      \* bound on the number of actions (state constraint)

VARIABLES chunks,   \* sequence, head first: [id, cap, size, user]
          blocks,   \* sequence of [chunk, off, size (aligned), req (requested), tag, live]
          mem,      \* function: <<chunk id, word index>> -> tag, for words written so far
          refcount,
          minchunk, \* policy state (adaptive policy raises it)
          nextid,   \* next chunk id
          nexttag,
          last,     \* label of the last action with arguments and results
          steps

vars == <<chunks, blocks, mem, refcount, minchunk, nextid, nexttag, last, steps>>

Align(n) == ((n + 7) \div 8) * 8
SumSeq2(s) == FoldLeft(LAMBDA a, x : a + x, 0, s)
HeadC == chunks[1]

Pow2Above(n) ==   \* 1 << (64 - clz(n)): the smallest power of two strictly greater than n (n > 0)
  LET RECURSIVE P(_)
      P(p) == IF p > n THEN p ELSE P(2 * p)
  IN P(1)

\* allocator.h:136-171 - returns <<chunk size, new policy state>>
Policy(need) ==
  IF ~Adaptive THEN <<IF minchunk > need THEN minchunk ELSE need, minchunk>>
  ELSE LET m2 == IF minchunk < need /\ minchunk < MaxChunkCap
                 THEN (IF Pow2Above(need) < MaxChunkCap THEN Pow2Above(need) ELSE MaxChunkCap)
                 ELSE minchunk
       IN <<IF m2 > need THEN m2 ELSE need, m2>>

Init ==
  /\ chunks = << [id |-> 0, cap |-> UserBuf, size |-> 0, user |-> TRUE] >>   \* embedded / user chunk
  /\ blocks = <<>> /\ mem = <<>> /\ refcount = 1 /\ minchunk = ChunkCap
  /\ nextid = 1 /\ nexttag = 1
  /\ last = [op |-> "init"] /\ steps = 0

\* the bump allocation of Malloc (allocator.h:366-380): returns the new chunk list, policy state,
\* chunk id and offset of the block
Bump(sz) ==
  IF HeadC.size + sz > HeadC.cap
  THEN LET p == Policy(sz)
           c == [id |-> nextid, cap |-> p[1], size |-> sz, user |-> FALSE]
       IN [chunks |-> <<c>> \o chunks, minchunk |-> p[2], chunk |-> nextid, off |-> 0, newchunk |-> TRUE]
  ELSE [chunks |-> <<[HeadC EXCEPT !.size = HeadC.size + sz]>> \o Tail(chunks), minchunk |-> minchunk,
        chunk |-> HeadC.id, off |-> HeadC.size, newchunk |-> FALSE]

DropBlk(i) == SubSeq(blocks, 1, i - 1) \o SubSeq(blocks, i + 1, Len(blocks))
Words(off, sz) == {off \div 8 + i : i \in 0..(sz \div 8 - 1)}

Malloc(n) ==
  /\ refcount > 0
  /\ IF n = 0 THEN /\ UNCHANGED <<chunks, blocks, mem, refcount, minchunk, nextid, nexttag>>
                   /\ last' = [op |-> "malloc", n |-> 0, null |-> TRUE]
     ELSE LET sz == Align(n) b == Bump(sz) IN
          /\ chunks' = b.chunks /\ minchunk' = b.minchunk
          /\ nextid' = IF b.newchunk THEN nextid + 1 ELSE nextid
          /\ blocks' = Append(blocks, [chunk |-> b.chunk, off |-> b.off, size |-> sz, req |-> n,
                                       tag |-> nexttag, live |-> TRUE])
          /\ nexttag' = nexttag + 1
          \* the owner fills its block at once (so "written or not" is not a state component)
          /\ LET ws == {<<b.chunk, w>> : w \in Words(b.off, sz)} IN
             mem' = [k \in (DOMAIN mem) \cup ws |-> IF k \in ws THEN nexttag ELSE mem[k]]
          /\ UNCHANGED refcount
          /\ last' = [op |-> "malloc", n |-> n, null |-> FALSE, tag |-> nexttag,
                      chunk |-> b.chunk, off |-> b.off, newchunk |-> b.newchunk]

\* the owner writes its tag over its whole block (requested bytes rounded up to words)
WriteBlock(i) ==
  /\ refcount > 0 /\ blocks[i].live
  /\ LET b == blocks[i]
         ws == {<<b.chunk, w>> : w \in Words(b.off, b.size)} IN
     mem' = [k \in (DOMAIN mem) \cup ws |-> IF k \in ws THEN b.tag ELSE mem[k]]
  /\ UNCHANGED <<chunks, blocks, refcount, minchunk, nextid, nexttag>>
  /\ last' = [op |-> "write", tag |-> blocks[i].tag]

\* allocator.h:383-416
Realloc(i, new) ==
  /\ refcount > 0 /\ blocks[i].live
  /\ LET b == blocks[i]
         osz == Align(b.req)          \* callers pass the size they requested; the code aligns it
         nsz == Align(new) IN
     IF new = 0 THEN
        /\ blocks' = DropBlk(i)                              \* caller gets null and drops the block
        /\ UNCHANGED <<chunks, mem, refcount, minchunk, nextid, nexttag>>
        /\ last' = [op |-> "realloc", tag |-> blocks[i].tag, n |-> 0, null |-> TRUE, inplace |-> FALSE, same |-> FALSE]
     ELSE IF osz >= nsz THEN
        /\ blocks' = [blocks EXCEPT ![i].req = new]
        /\ UNCHANGED <<chunks, mem, refcount, minchunk, nextid, nexttag>>
        /\ last' = [op |-> "realloc", tag |-> blocks[i].tag, n |-> new, null |-> FALSE, inplace |-> FALSE, same |-> TRUE]
     ELSE IF b.chunk = HeadC.id /\ b.off = HeadC.size - osz /\ HeadC.size + (nsz - osz) <= HeadC.cap THEN
        \* grows in place: it is the most recent allocation of the head chunk and room remains
        /\ chunks' = <<[HeadC EXCEPT !.size = HeadC.size + (nsz - osz)]>> \o Tail(chunks)
        /\ blocks' = [blocks EXCEPT ![i].size = nsz, ![i].req = new]
        \* the owner fills the extension
        /\ LET ws == {<<b.chunk, w>> : w \in Words(b.off, nsz)} IN
           mem' = [k \in (DOMAIN mem) \cup ws |-> IF k \in ws THEN b.tag ELSE mem[k]]
        /\ UNCHANGED <<refcount, minchunk, nextid, nexttag>>
        /\ last' = [op |-> "realloc", tag |-> blocks[i].tag, n |-> new, null |-> FALSE, inplace |-> TRUE, same |-> TRUE]
     ELSE
        \* new block + copy of the old contents; the old block is abandoned (never reused before Clear)
        LET bm == Bump(nsz)
            nb == [chunk |-> bm.chunk, off |-> bm.off, size |-> nsz, req |-> new, tag |-> b.tag, live |-> TRUE]
            src == Words(b.off, osz)
            cp == {<<bm.chunk, bm.off \div 8 + (w - b.off \div 8)>> : w \in {x \in src : <<b.chunk, x>> \in DOMAIN mem}}
        IN
        /\ chunks' = bm.chunks /\ minchunk' = bm.minchunk
        /\ nextid' = IF bm.newchunk THEN nextid + 1 ELSE nextid
        /\ blocks' = Append(DropBlk(i), nb)
        \* memcpy of the old contents, then the owner fills the rest of the new block
        /\ LET ws == {<<bm.chunk, w>> : w \in Words(bm.off, nsz)} IN
           mem' = [k \in (DOMAIN mem) \cup ws |->
                     IF k \in cp THEN mem[<<b.chunk, b.off \div 8 + (k[2] - bm.off \div 8)>>]
                     ELSE IF k \in ws THEN b.tag ELSE mem[k]]
        \* (the abandoned block's words keep their contents in the real pool; nobody owns them
        \* any more, and they are dropped from the state only when Clear releases everything)
        /\ UNCHANGED <<refcount, nexttag>>
        /\ last' = [op |-> "realloc", tag |-> blocks[i].tag, n |-> new, null |-> FALSE, inplace |-> FALSE, same |-> FALSE,
                    chunk |-> bm.chunk, off |-> bm.off, newchunk |-> bm.newchunk]

\* allocator.h:307-318: every chunk except the last (embedded / user) one is released
Clear ==
  /\ refcount > 0
  /\ chunks' = << [chunks[Len(chunks)] EXCEPT !.size = 0] >>
  /\ blocks' = <<>>
  /\ mem' = <<>>
  /\ UNCHANGED <<refcount, minchunk, nextid, nexttag>>
  /\ last' = [op |-> "clear"]

CopyHandle == /\ refcount > 0 /\ refcount < MaxHandles /\ refcount' = refcount + 1
              /\ UNCHANGED <<chunks, blocks, mem, minchunk, nextid, nexttag>> /\ last' = [op |-> "copyhandle"]
\* destructor of one handle: the pool goes away with the last one (allocator.h:288-305)
DropHandle == /\ refcount > 0 /\ refcount' = refcount - 1
              /\ IF refcount = 1
                 THEN /\ chunks' = <<>> /\ mem' = <<>>
                      /\ blocks' = <<>>
                 ELSE UNCHANGED <<chunks, blocks, mem>>
              /\ UNCHANGED <<minchunk, nextid, nexttag>> /\ last' = [op |-> "drophandle"]

Next == /\ steps' = steps + 1
        /\ \/ \E n \in Sizes : Malloc(n)
           \/ \E i \in 1..Len(blocks), n \in Sizes : Realloc(i, n)
           \/ Clear \/ CopyHandle \/ DropHandle

Spec == Init /\ [][Next]_vars

\* ------------------------------------------------------------------ properties
Live == {i \in 1..Len(blocks) : blocks[i].live}
ChunkById(id) == CHOOSE c \in {chunks[j] : j \in 1..Len(chunks)} : c.id = id

Aligned == \A i \in Live : blocks[i].off % 8 = 0 /\ blocks[i].size % 8 = 0
InsideOneChunk == \A i \in Live :
  /\ \E j \in 1..Len(chunks) : chunks[j].id = blocks[i].chunk
  /\ blocks[i].off + blocks[i].size <= ChunkById(blocks[i].chunk).cap
  /\ blocks[i].size >= blocks[i].req
Disjoint == \A i, j \in Live : i # j /\ blocks[i].chunk = blocks[j].chunk =>
  (blocks[i].off + blocks[i].size <= blocks[j].off \/ blocks[j].off + blocks[j].size <= blocks[i].off)
\* contents: every word of a live block that has been written holds the block's own tag
Undisturbed == \A i \in Live : \A w \in Words(blocks[i].off, blocks[i].size) :
  <<blocks[i].chunk, w>> \in DOMAIN mem => mem[<<blocks[i].chunk, w>>] = blocks[i].tag
SizeAccounts ==
  refcount > 0 =>
    /\ \A j \in 1..Len(chunks) : chunks[j].size <= chunks[j].cap
    \* what was handed out since the last Clear and is still owned fits in what Size() reports
    /\ SumSeq2([j \in 1..Len(chunks) |-> chunks[j].size]) >=
         SumSeq2([i \in 1..Len(blocks) |-> IF blocks[i].live THEN blocks[i].size ELSE 0])
PoolAlive == (refcount > 0) = (chunks # <<>>)

Inv == Aligned /\ InsideOneChunk /\ Disjoint /\ Undisturbed /\ SizeAccounts /\ PoolAlive

\* MaxBlocks bounds the number of blocks ever handed out (tags are never reused)
Constraint == nexttag <= MaxBlocks + 1 /\ nextid <= MaxBlocks + 2 /\ steps <= MaxSteps
=============================================================================
