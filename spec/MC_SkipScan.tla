---------------------------- MODULE MC_SkipScan ----------------------------
(* Model checking of SkipScan over every byte string up to MaxLen over Sigma x a fixed set of pointer paths, and
   emission of the model's prediction (error class, slice) per (text, path) for the drift replay on the real scanner. *)
EXTENDS SkipScan, Json, CSV, IOUtils
CONSTANTS Sigma, MaxLen,
          Prune     \* TRUE: only prefixes that can still become a JSON text are extended (reaches longer valid texts)
VARIABLE t

KA == KeyStep(<<97>>)
Paths == { <<>>, <<KA>>, <<IdxStep(0)>>, <<IdxStep(1)>>, <<KA, IdxStep(0)>>, <<IdxStep(1), KA>>, <<KA, KA>>,
           <<IdxStep(-1)>>, <<KeyStep(<<>>)>>, <<IdxStep(2)>> }

Init == t = <<>>
Next == /\ Len(t) < MaxLen
        /\ Prune => Viable(t)
        /\ \E c \in Sigma : t' = Append(t, c)

Inv == \A p \in Paths : InBounds(t, p) /\ Equiv(t, p)

Pred(p) == LET r == OnDemand(t, p) IN
  [t |-> t, path |-> p, err |-> r.err, start |-> r.start, len |-> IF r.err = 0 THEN r.pos - r.start ELSE 0, pk |-> r.pk]
EmitOD == \A p \in Paths : CSVWrite("%1$s", <<ToJson(Pred(p))>>, IOEnv.OUT)
=============================================================================
