---------------------------- MODULE Gen_Document ----------------------------
(* Behaviours of Document.tla for replay on real GenericDocument objects (tlc -simulate). *)
EXTENDS Document, Sequences, Json, CSV, IOUtils
CONSTANT Depth
VARIABLE hist
GInit == Init /\ hist = <<>>
GNext == /\ Len(hist) < Depth /\ Next
         /\ hist' = Append(hist, [a |-> last', nl |-> nlive', orph |-> orphans'])
EmitBeh == Len(hist) = Depth => CSVWrite("%1$s", <<ToJson([steps |-> hist])>>, IOEnv.OUT)
=============================================================================
