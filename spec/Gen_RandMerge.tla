---------------------------- MODULE Gen_RandMerge ----------------------------
(***************************************************************************)
(* C19 / C20 beyond the exhaustive pair bound: TLC simulation grows an     *)
(* "existing" syntax tree by random insertions (GrowSteps), copies it, and *)
(* derives the "text" tree from the copy by random edits (EditSteps):      *)
(* delete a member, replace any node by a node of another kind, add an     *)
(* undeclared member, add an element, swap two members.  The two trees     *)
(* therefore share most keys at every depth, which is what makes the       *)
(* update-in-place / rebuild / append paths of the merges interleave.      *)
(* Expected results: Gen_Schema!SchemaMerge and LazyMerge on the denoted   *)
(* values (the only oracle).  Run with `tlc -simulate`; a pair is written  *)
(* when both phases are complete.                                          *)
(***************************************************************************)
EXTENDS Schema
CONSTANTS GrowSteps, EditSteps
VARIABLES ta, tb, tc, phase, n   \* tc: a second text, derived from the first by further edits (sequences of updates)

KE == <<34,101,34>>
KeysR == <<K3[1], K3[2], K3[3], KD, KE>>
LeafPool == {Tok(N1), Tok(SA), Tok(NULL), Tok(N1p5)}
NodePool == LeafPool \cup {Obj(<<>>), Arr(<<>>), Obj(<< <<K3[1], Tok(N1)>> >>), Arr(<<Tok(SA)>>),
                           Obj(<< <<K3[2], Tok(SA)>>, <<K3[1], Tok(NULL)>> >>)}

\* all positions of a tree: sequences of child indices
RECURSIVE Pos(_)
Pos(t) ==
  {<<>>} \cup
  (CASE t.s = "arr" -> UNION {{<<i>> \o p : p \in Pos(t.e[i])} : i \in 1..Len(t.e)}
     [] t.s = "obj" -> UNION {{<<i>> \o p : p \in Pos(t.m[i][2])} : i \in 1..Len(t.m)}
     [] OTHER -> {})
RECURSIVE NodeAt(_, _)
NodeAt(t, p) == IF p = <<>> THEN t ELSE NodeAt(IF t.s = "arr" THEN t.e[Head(p)] ELSE t.m[Head(p)][2], Tail(p))
RECURSIVE PutAt(_, _, _)
PutAt(t, p, x) ==
  IF p = <<>> THEN x
  ELSE IF t.s = "arr" THEN Arr([i \in 1..Len(t.e) |-> IF i = Head(p) THEN PutAt(t.e[i], Tail(p), x) ELSE t.e[i]])
  ELSE Obj([i \in 1..Len(t.m) |-> IF i = Head(p) THEN <<t.m[i][1], PutAt(t.m[i][2], Tail(p), x)>> ELSE t.m[i]])

HasKey(o, key) == \E i \in 1..Len(o.m) : o.m[i][1] = key
FreeKeys(o) == {i \in 1..Len(KeysR) : ~HasKey(o, KeysR[i])}

\* one random edit of tree t (the set of all results)
Inserts(t) ==
  UNION {LET nd == NodeAt(t, p) IN
         CASE nd.s = "obj" -> {PutAt(t, p, Obj(Append(nd.m, <<KeysR[k], x>>))) : k \in FreeKeys(nd), x \in NodePool}
           [] nd.s = "arr" -> {PutAt(t, p, Arr(Append(nd.e, x))) : x \in NodePool}
           [] OTHER -> {} : p \in Pos(t)}
Replaces(t) == {PutAt(t, p, x) : p \in Pos(t), x \in NodePool}
Swaps(t) ==
  UNION {LET nd == NodeAt(t, p) IN
         IF nd.s = "obj" /\ Len(nd.m) > 1
         THEN {PutAt(t, p, Obj([i \in 1..Len(nd.m) |-> IF i = 1 THEN nd.m[Len(nd.m)] ELSE IF i = Len(nd.m) THEN nd.m[1] ELSE nd.m[i]]))}
         ELSE {} : p \in Pos(t)}

DropMember(nd, j) == Obj([i \in 1..(Len(nd.m) - 1) |-> IF i < j THEN nd.m[i] ELSE nd.m[i + 1]])
Deletes2(t) ==
  UNION {LET nd == NodeAt(t, p) IN
         IF nd.s = "obj" /\ Len(nd.m) > 0 THEN {PutAt(t, p, DropMember(nd, j)) : j \in 1..Len(nd.m)} ELSE {} : p \in Pos(t)}

RInit == ta = Obj(<<>>) /\ tb = Obj(<<>>) /\ tc = Obj(<<>>) /\ phase = "grow" /\ n = 0 /\ tree = Tok(N1) /\ tree2 = Tok(N1) /\ layout = 0
Edits(t) == Replaces(t) \cup Deletes2(t) \cup Inserts(t) \cup Swaps(t)
RNext == UNCHANGED <<tree, tree2, layout>> /\
  \/ /\ phase = "grow" /\ n < GrowSteps
     /\ ta' \in Inserts(ta) /\ n' = n + 1 /\ UNCHANGED <<tb, tc, phase>>
  \/ /\ phase = "grow" /\ n = GrowSteps
     /\ tb' = ta /\ phase' = "edit" /\ n' = 0 /\ UNCHANGED <<ta, tc>>
  \/ /\ phase = "edit" /\ n < EditSteps
     /\ tb' \in Edits(tb) /\ n' = n + 1 /\ UNCHANGED <<ta, tc, phase>>
  \/ /\ phase = "edit" /\ n = EditSteps
     /\ tc' = tb /\ phase' = "edit2" /\ n' = 0 /\ UNCHANGED <<ta, tb>>
  \/ /\ phase = "edit2" /\ n < 2
     /\ tc' \in Edits(tc) /\ n' = n + 1 /\ UNCHANGED <<ta, tb, phase>>

REmit == (phase = "edit2" /\ n = 2) =>
  \A E \in {DenT(ta)} : \A V \in {DenT(tb)} : \A W \in {DenT(tc)} : \A M \in {SchemaMerge(E, V)} :
  CSVWrite("%1$s", <<ToJson([e |-> RenderL(ta, LayE), v |-> RenderL(tb, LayV), v2 |-> RenderL(tc, LayV),
                             schema |-> M, lazy |-> LazyMerge(E, V),
                             schema2 |-> SchemaMerge(M, V),
                             schema12 |-> SchemaMerge(M, W)])>>, IOEnv.OUT)
\* the handler's I-model (spec/Schema.tla) on every emitted pair, and on the second update of the sequence
RModelOk == (phase = "edit2" /\ n = 2) =>
  \A E \in {DenT(ta)} : \A V \in {DenT(tb)} : \A W \in {DenT(tc)} :
    PairOk(E, V) /\ (~EmptyObjShape(E, V) /\ ~ArrObjShape(E, V) => PairOk(SchemaMerge(E, V), W))
=============================================================================
