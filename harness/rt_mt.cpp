// Multi-threaded drivers for C17.
//  rt_mt pool <nthreads> <ops-per-thread> <seed> <events_out>
//      (build with -DSONIC_LOCKED_ALLOCATOR -DSONIC_VERIF_HOOKS) threads Malloc / grow-Realloc from ONE shared
//      MemoryPoolAllocator; hook H2 records every pool event while the allocator lock is held; after join every
//      block is checked to be 8-aligned, disjoint from all others and intact; the event sequence is written for
//      TLC (spec/Trace_Pool.tla: it must be a behaviour of the sequential pool specification).
//  rt_mt readers <nthreads> <rounds> <seed> <withmissing:0|1>
//      any number of threads perform read-only operations on one shared document (type tests, getters, iteration,
//      FindMember hit and miss, HasMember, operator[] on present keys - and on missing keys when withmissing=1 -,
//      AtPointer, operator==, Serialize into a thread-local buffer).  Run under ThreadSanitizer.
//  rt_mt corpus <nthreads> <rounds> <seed> <texts.hex>
//      every thread runs the single-threaded API (Parse, Dump, re-Parse, GetOnDemand, ParseSchema, UpdateLazy) over the
//      same TLC-generated corpus of texts on documents of its own: whatever the corpus reaches in the library must not
//      touch state shared between threads.  Results are compared with a single-threaded reference pass.
//  rt_mt owners <nthreads> <rounds> <seed>
//      every thread parses, mutates and serialises its own documents (own allocators).  Run under ThreadSanitizer.
// exit 0 = no violation seen by the driver itself (TSan reports come through its own exit code).
#include <algorithm>
#include <atomic>
#include <map>
#include <mutex>
#include <random>
#include <thread>

#include "sonic/sonic.h"
#include "sonic/experiment/lazy_update.h"
#include "vh.h"

using namespace sonic_json;

#ifdef SONIC_VERIF_HOOKS
struct Ev { int op; size_t n, off, hsize, hcap; int ord, newchunk; };
static std::vector<Ev> g_events;
static std::map<const void*, int> g_ord;
static int g_next_ord = 1;
static void pool_hook(const void*, const VerifPoolEvent& e) {
  // called with the allocator lock held (SONIC_LOCKED_ALLOCATOR): plain containers are safe here
  int ord;
  auto it = g_ord.find(e.head);
  if (e.newchunk || it == g_ord.end()) { ord = e.newchunk ? g_next_ord++ : 0; g_ord[e.head] = ord; } else ord = it->second;
  g_events.push_back(Ev{e.op, e.n, e.off, e.hsize, e.hcap, ord, e.newchunk});
}
#endif

struct Blk { char* p; size_t n; unsigned tag; };

static int run_pool(int nt, int ops, unsigned seed, const char* evpath) {
#ifdef SONIC_VERIF_HOOKS
  VerifPoolHook() = pool_hook;
#endif
  int bad = 0;
  {
    MemoryPoolAllocator<> pool(64);
    std::vector<std::vector<Blk>> mine(nt);
    std::vector<std::thread> th;
    std::atomic<int> go{0};
    for (int t = 0; t < nt; t++)
      th.emplace_back([&, t] {
        std::mt19937 rng(seed * 977 + t);
        MemoryPoolAllocator<>& h = pool;               // all threads use the one allocator object (and its lock)
        while (!go.load()) {}
        for (int k = 0; k < ops; k++) {
          static const size_t sizes[] = {1, 7, 8, 9, 16, 24, 40, 56, 64, 72};
          size_t n = sizes[rng() % 10];
          unsigned tag = (unsigned)(t * 100000 + k);
          if (!mine[t].empty() && rng() % 3 == 0) {
            Blk& b = mine[t].back();
            size_t nn = b.n + sizes[rng() % 10];
            char* q = (char*)h.Realloc(b.p, b.n, nn);
            for (size_t i = 0; i < b.n; i++) if (q[i] != (char)(b.tag * 31 + i)) { vh::fail(k, "mt-realloc-prefix", "thread " + std::to_string(t)); break; }
            b.p = q; b.n = nn;
            for (size_t i = 0; i < b.n; i++) b.p[i] = (char)(b.tag * 31 + i);
          } else {
            char* p = (char*)h.Malloc(n);
            Blk b{p, n, tag};
            for (size_t i = 0; i < n; i++) p[i] = (char)(tag * 31 + i);
            mine[t].push_back(b);
          }
        }
      });
    go.store(1);
    for (auto& x : th) x.join();
    // after join: disjoint and intact
    std::vector<Blk> all;
    for (auto& v : mine) for (auto& b : v) all.push_back(b);
    std::sort(all.begin(), all.end(), [](const Blk& a, const Blk& b) { return a.p < b.p; });
    for (size_t i = 0; i < all.size(); i++) {
      if (((uintptr_t)all[i].p & 7) != 0) { vh::fail(i, "mt-alignment", "block not 8-aligned"); bad++; }
      if (i + 1 < all.size() && all[i].p + all[i].n > all[i + 1].p) { vh::fail(i, "mt-overlap", "blocks of tags " + std::to_string(all[i].tag) + " and " + std::to_string(all[i + 1].tag) + " overlap"); bad++; }
      for (size_t k = 0; k < all[i].n; k++) if (all[i].p[k] != (char)(all[i].tag * 31 + k)) { vh::fail(i, "mt-contents", "block of tag " + std::to_string(all[i].tag) + " was disturbed"); bad++; break; }
    }
#ifdef SONIC_VERIF_HOOKS
    VerifPoolHook() = nullptr;
    FILE* f = fopen(evpath, "a");
    fprintf(f, "{\"e\":\"reset\"}\n");
    for (auto& e : g_events) {
      if (e.op == 1) fprintf(f, "{\"e\":\"malloc\",\"n\":%zu,\"off\":%zu,\"new\":%d,\"hsize\":%zu,\"hcap\":%zu}\n", e.n, e.off, e.newchunk, e.hsize, e.hcap);
      else if (e.op == 2) fprintf(f, "{\"e\":\"grow\",\"inc\":%zu,\"off\":%zu,\"hsize\":%zu}\n", e.n, e.off, e.hsize);
      else fprintf(f, "{\"e\":\"clear\"}\n");
    }
    fclose(f);
#endif
  }
  printf("N\t%d\n", nt * ops);
  return bad ? 1 : 0;
}

static const char* kShared = R"({"a":1,"b":[1,2,{"c":"str","d":null}],"obj":{"x":1.5,"y":-3,"z":true,"long key with more than thirty-two bytes in it":[]},"s":"é\n","n":18446744073709551615})";

static int run_readers(int nt, int rounds, unsigned seed, bool withmissing) {
  Document doc;
  doc.Parse(kShared, strlen(kShared));
  if (doc.HasParseError()) return 3;
  const Document& d = doc;
  std::atomic<int> bad{0};
  std::vector<std::thread> th;
  for (int t = 0; t < nt; t++)
    th.emplace_back([&, t] {
      std::mt19937 rng(seed * 131 + t);
      WriteBuffer wb;
      for (int r = 0; r < rounds; r++) {
        switch (rng() % 9) {
          case 0: if (!d.IsObject() || d.Size() != 5) bad++; break;
          case 1: { auto m = d.FindMember("obj"); if (m == d.MemberEnd() || !m->value.IsObject()) bad++; break; }
          case 2: if (d.FindMember("missing") != d.MemberEnd() || d.HasMember("nope")) bad++; break;
          case 3: { size_t c = 0; for (auto it = d.MemberBegin(); it != d.MemberEnd(); ++it) c += it->name.Size(); if (c == 0) bad++; break; }
          case 4: if (d["a"].GetUint64() != 1 || d["b"][2]["c"].GetStringView() != "str") bad++; break;
          case 5: { auto* p = d.AtPointer("obj", "x"); if (!p || p->GetDouble() != 1.5) bad++; if (d.AtPointer("obj", "q") != nullptr) bad++; break; }
          case 6: { if (d.Serialize(wb) != kErrorNone || wb.Size() == 0) bad++; break; }
          case 7: if (!(d == d) || d["obj"] != d["obj"]) bad++; break;
          case 8: if (withmissing) { if (!d["missing key"].IsNull() || !d["obj"]["q"].IsNull()) bad++; } break;
        }
      }
    });
  for (auto& x : th) x.join();
  printf("N\t%d\n", nt * rounds);
  if (bad) vh::fail(0, "mt-reader-result", "a read-only operation returned a wrong result");
  return bad ? 1 : 0;
}

static int run_owners(int nt, int rounds, unsigned seed) {
  std::atomic<int> bad{0};
  std::vector<std::thread> th;
  for (int t = 0; t < nt; t++)
    th.emplace_back([&, t] {
      std::mt19937 rng(seed * 31 + t);
      for (int r = 0; r < rounds; r++) {
        Document d;
        std::string text = "{\"k\":[1,2,3,\"" + std::string(rng() % 70, 'x') + "\"],\"t\":" + std::to_string(t) + "," + std::string(rng() % 5, ' ') + "\"f\":1.25e2}";
        d.Parse(text.data(), text.size());
        if (d.HasParseError()) { bad++; continue; }
        auto& a = d.GetAllocator();
        d.AddMember("new", Node((uint64_t)r), a);
        d["k"].PushBack(Node(StringView("pushed"), a), a);
        d.RemoveMember("t");
        d.CreateMap(a);
        if (!d.HasMember("new") || d.HasMember("t")) bad++;
        std::string out = d.Dump();
        Document e;
        e.Parse(out.data(), out.size());
        if (e.HasParseError() || !(e == d)) bad++;
        Document bad1;
        bad1.Parse("[1,", 3);
        if (!bad1.HasParseError()) bad++;
        StringView target;
        if (GetOnDemand(StringView(text.data(), text.size()), JsonPointer({"k", 1}), target).Error() || target != "2") bad++;
      }
    });
  for (auto& x : th) x.join();
  printf("N\t%d\n", nt * rounds);
  if (bad) vh::fail(0, "mt-owner-result", "an operation on a thread-private document returned a wrong result");
  return bad ? 1 : 0;
}

// what one text does through the single-threaded API, as a string (for comparison between threads and a reference pass)
static std::string api_round(const std::string& text) {
  std::string res;
  Document d;
  d.Parse(text.data(), text.size());
  res += d.HasParseError() ? "E" + std::to_string((int)d.GetParseError()) : "ok";
  if (!d.HasParseError()) {
    std::string out = d.Dump();
    res += "|" + out;
    Document e;
    e.Parse(out.data(), out.size());
    res += e.HasParseError() ? "|re-E" : (e == d ? "|re-eq" : "|re-ne");
    Document s;
    s.Parse(out.data(), out.size());
    s.ParseSchema(text.data(), text.size());
    res += "|" + s.Dump();
    res += "|" + UpdateLazy(StringView(out), StringView(text));
  }
  StringView target;
  auto r1 = GetOnDemand(StringView(text.data(), text.size()), JsonPointer({0}), target);
  res += "|od" + std::to_string((int)r1.Error()) + ":" + std::string(target.data(), target.size());
  auto r2 = GetOnDemand(StringView(text.data(), text.size()), JsonPointer({"a"}), target);
  res += "|od" + std::to_string((int)r2.Error()) + ":" + std::string(target.data(), target.size());
  return res;
}

static int run_corpus(int nt, int rounds, unsigned seed, const char* path) {
  std::vector<std::string> texts;
  {
    FILE* f = fopen(path, "r");
    if (!f) { fprintf(stderr, "no corpus\n"); return 3; }
    char* line = nullptr; size_t cap = 0; ssize_t n;
    while ((n = getline(&line, &cap, f)) > 0) { std::string h(line, n); while (!h.empty() && (h.back() == '\n' || h.back() == '\r')) h.pop_back(); texts.push_back(vh::unhex(h)); }
    free(line); fclose(f);
  }
  std::vector<std::string> ref(texts.size());
  for (size_t i = 0; i < texts.size(); i++) ref[i] = api_round(texts[i]);     // single-threaded reference
  std::atomic<int> bad{0};
  std::atomic<long> first_bad{-1};
  std::vector<std::thread> th;
  std::atomic<int> go{0};
  for (int t = 0; t < nt; t++)
    th.emplace_back([&, t] {
      while (!go.load()) {}
      for (int r = 0; r < rounds; r++)
        for (size_t k = 0; k < texts.size(); k++) {
          size_t i = (k + (size_t)t * 7 + seed) % texts.size();              // threads meet the same text at nearly the same time
          if ((t & 1) && k + 1 < texts.size()) i = (k + seed) % texts.size();
          if (api_round(texts[i]) != ref[i]) { bad++; long e = -1; first_bad.compare_exchange_strong(e, (long)i); }
        }
    });
  go = 1;
  for (auto& x : th) x.join();
  printf("N\t%zu\n", (size_t)nt * rounds * texts.size());
  if (bad) vh::fail(0, "mt-owner-result", "an operation on a thread-private document gave a result different from the single-threaded run, first for text " + vh::hex(texts[first_bad.load()]).substr(0, 120));
  return bad ? 1 : 0;
}

int main(int argc, char** argv) {
  if (argc < 5) { fprintf(stderr, "usage\n"); return 3; }
  std::string mode = argv[1];
  int nt = atoi(argv[2]), k = atoi(argv[3]);
  unsigned seed = (unsigned)strtoul(argv[4], 0, 10);
  if (mode == "pool") return run_pool(nt, k, seed, argc > 5 ? argv[5] : "/dev/null");
  if (mode == "corpus") return run_corpus(nt, k, seed, argv[5]);
  if (mode == "readers") return run_readers(nt, k, seed, argc > 5 && atoi(argv[5]) == 1);
  return run_owners(nt, k, seed);
}
