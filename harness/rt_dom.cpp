// Replayer for TLC-generated behaviours of spec/Dom.tla and spec/Sonic.tla (life cycle: parse, mutate, dump, parse
// again) on the real Document / DNode API (C12, C13, C18; C03 and C06 for the parse and dump steps).
// usage: rt_dom <alloc:pool|track> <ledgerlog|-> <steps.tsv> <progress> <start>
// step row: beh step op c a1 a2 a3 exp_root exp_aux ret nl rc rm eqdef eq exp_dump(hex|-)
// root is a Document (so that Parse can replace it), aux a free-standing node in the same allocator.
// After every step: accessor walk of root and aux == R-state; lookups of absent keys; operator== vs
// the R-model verdict; cross-allocator deep copy equal and independent; (track) ledger problems.
// 'progress' holds the index of the row being executed; <start> must be the first row of a behaviour.
#include <memory>
#include <set>

#include "sonic/sonic.h"
#include "track_alloc.h"
#include "vh.h"
#include "walk.h"

using namespace sonic_json;

static std::set<std::string> g_intern;   // storage for non-copied keys / const strings
static const std::string& intern(const std::string& s) { return *g_intern.insert(s).first; }

template <typename A>
struct Runner {
  using N = DNode<A>;
  using Doc = GenericDocument<N>;
  A alloc;
  std::unique_ptr<Doc> root;
  std::unique_ptr<N> aux;
  uint64_t drift_cap = 0, drift_ledger = 0, drift_dump = 0;
  std::string dumped;   // output of the last dump step

  N* T(long c) {
    if (c == 0) return static_cast<N*>(root.get());
    if (c == -1) return aux.get();
    if (root->IsArray()) return &(*root)[(size_t)(c - 1)];
    return &((root->MemberBegin() + (c - 1))->value);
  }
  void reset() {
    root.reset(new Doc(&alloc));
    aux.reset(new N());
  }
  void setscalar(N* t, const std::string& tok) {
    if (tok == "n") t->SetNull();
    else if (tok == "t") t->SetBool(true);
    else if (tok == "f") t->SetBool(false);
    else if (tok[0] == 'u') t->SetUint64(strtoull(tok.c_str() + 2, 0, 10));
    else if (tok[0] == 'i') t->SetInt64(strtoll(tok.c_str() + 2, 0, 10));
    else if (tok[0] == 'd') { uint64_t b = strtoull(tok.c_str() + 2, 0, 16); double d; memcpy(&d, &b, 8); t->SetDouble(d); }
  }
  // returns "" or "kind|detail"
  std::string step(const std::vector<std::string>& r, bool* ret) {
    const std::string& op = r[2];
    long c = atol(r[3].c_str());
    N* t = T(c);
    *ret = true;
    if (op == "set") setscalar(t, r[4]);
    else if (op == "setstr") {
      std::string b = vh::unhex(r[4]);
      if (r[5] == "1") t->SetString(StringView(b.data(), b.size()), alloc);
      else { const std::string& s = intern(b); t->SetString(StringView(s.data(), s.size())); }
    } else if (op == "setarr") t->SetArray();
    else if (op == "setobj") t->SetObject();
    else if (op == "pushback") t->PushBack(std::move(*aux), alloc);
    else if (op == "popback") t->PopBack();
    else if (op == "erase") t->Erase((size_t)atol(r[4].c_str()), (size_t)atol(r[5].c_str()));
    else if (op == "reserve") t->Reserve((size_t)atol(r[4].c_str()), alloc);
    else if (op == "clear") t->Clear();
    else if (op == "addmember") {
      std::string k = vh::unhex(r[4]);
      if (r[5] == "1") t->AddMember(StringView(k.data(), k.size()), std::move(*aux), alloc, true);
      else { const std::string& s = intern(k); t->AddMember(StringView(s.data(), s.size()), std::move(*aux), alloc, false); }
    } else if (op == "removemember") {
      std::string k = vh::unhex(r[4]);
      *ret = t->RemoveMember(StringView(k.data(), k.size()));
    } else if (op == "erasemember") {
      t->EraseMember(t->MemberBegin() + atol(r[4].c_str()), t->MemberBegin() + atol(r[5].c_str()));
    } else if (op == "memberreserve") t->MemberReserve((size_t)atol(r[4].c_str()), alloc);
    else if (op == "createmap") t->CreateMap(alloc);
    else if (op == "destroymap") t->DestroyMap();
    else if (op == "copytoaux") aux->CopyFrom(*t, alloc);
    else if (op == "copyfromaux") t->CopyFrom(*aux, alloc);
    else if (op == "copytoauxown") aux->CopyFrom(*t, alloc, true);
    else if (op == "copyfromauxown") t->CopyFrom(*aux, alloc, true);
    else if (op == "swapaux") t->Swap(*aux);
    else if (op == "movechildup") *static_cast<N*>(root.get()) = std::move(*t);
    else if (op == "parse") {
      std::string b = vh::unhex(r[4]);
      vh::GuardBuf g;   // the text ends at a page boundary: the parser copies it and must not read beyond it
      char* p = g.place_end(b.size());
      memcpy(p, b.data(), b.size());
      root->Parse(p, b.size());
      *ret = !root->HasParseError();
    } else if (op == "dump") {
      dumped = t->Dump();
    }
    else if (op == "movetoaux") *aux = std::move(*t);
    else return "harness|unknown op " + op;
    return "";
  }
};

// a copy made with copyString = true must own every string: none may be a borrowed (const) string and none may point
// into storage the caller owns (the interned buffers) - the caller may reuse those buffers afterwards
template <typename N>
static std::string borrows(const N& n) {
  if (n.IsString()) {
    if (n.IsStringConst()) return "a string of the copy is still a borrowed (const) string";
    for (auto& s : g_intern) if (!s.empty() && n.GetStringView().data() >= s.data() && n.GetStringView().data() < s.data() + s.size()) return "a string of the copy points into the caller's buffer";
    return "";
  }
  if (n.IsArray()) { for (auto it = n.Begin(); it != n.End(); ++it) { std::string e = borrows(*it); if (!e.empty()) return e; } }
  if (n.IsObject()) { for (auto it = n.MemberBegin(); it != n.MemberEnd(); ++it) { std::string e = borrows(it->name); if (e.empty()) e = borrows(it->value); if (!e.empty()) return e; } }
  return "";
}

template <typename N>
static std::string absent_lookups(const N& n) {
  if (!n.IsObject()) return "";
  static const char* absent[] = {"zz", "\x01q", "kk12"};
  for (auto a : absent) {
    bool present = false;
    for (auto it = n.MemberBegin(); it != n.MemberEnd(); ++it) if (it->name.GetStringView() == StringView(a)) present = true;
    if (present) continue;
    if (n.FindMember(StringView(a)) != n.MemberEnd()) return "FindMember finds an absent key";
    if (n.FindMember(a, strlen(a)) != n.MemberEnd()) return "FindMember(ptr,len) finds an absent key";
    if (n.HasMember(StringView(a))) return "HasMember true for an absent key";
    if (!n[StringView(a)].IsNull()) return "operator[] on an absent key is not null";
    if (n.AtPointer(StringView(a)) != nullptr) return "AtPointer resolves an absent key";
  }
  return "";
}

// every member name must be found, and (distinct names) at its own position, through every lookup overload
template <typename N>
static std::string present_lookups(const N& n) {
  if (!n.IsObject()) return "";
  size_t idx = 0;
  for (auto it = n.MemberBegin(); it != n.MemberEnd(); ++it, ++idx) {
    StringView k = it->name.GetStringView();
    bool dup = false;
    for (auto jt = n.MemberBegin(); jt != n.MemberEnd(); ++jt) if (jt != it && jt->name.GetStringView() == k) dup = true;
    auto f = n.FindMember(k);
    if (f == n.MemberEnd()) return "FindMember does not find member " + std::to_string(idx) + " by its own name";
    if (!(f->name.GetStringView() == k)) return "FindMember returns a member with another name";
    if (!dup && f != it) return "FindMember returns another position for a distinct name";
    auto g = n.FindMember(k.data(), k.size());
    if (g != f && !dup) return "FindMember(ptr,len) disagrees with FindMember(view)";
    if (!n.HasMember(k)) return "HasMember false for a present name";
    if (!dup && &n[k] != &it->value) return "operator[] returns another node for a present name";
  }
  return "";
}

template <typename A, typename B>
static int run(const char* logpath, vh::Cases& cs, vh::Progress& pg, size_t start) {
  Runner<A> R;
  B other;
  auto& L = vh::Ledger::get();
  if (std::string(logpath) != "-") L.log = fopen(logpath, start ? "a" : "w");
  constexpr bool track = std::is_same<A, vh::TrackAllocator>::value;
  uint64_t n = 0;
  bool skip_beh = false;
  std::string cur_beh;
  for (size_t i = start; i < cs.rows.size(); i++) {
    auto& r = cs.rows[i];
    if (r.size() < 16) continue;
    pg.set(i);
    if (r[0] != cur_beh) {
      // new behaviour: everything from the previous one is destroyed first
      R.root.reset();
      R.aux.reset();
      if (track) {
        if (!L.live.empty() && !cur_beh.empty())
          vh::fail(i - 1, "leak", "blocks still allocated after root and aux were destroyed: " + std::to_string(L.live.size()));
        for (auto& kv : L.live) std::free(kv.first);
        L.live.clear();
        L.mark("reset");
      }
      if constexpr (std::is_same<A, MemoryPoolAllocator<>>::value) R.alloc.Clear();
      if constexpr (std::is_same<B, MemoryPoolAllocator<>>::value) other.Clear();
      R.reset();
      cur_beh = r[0];
      skip_beh = false;
    }
    if (skip_beh) continue;
    bool ret = true;
    std::string e = R.step(r, &ret);
    if (!e.empty()) { vh::fail(i, "harness", e); skip_beh = true; continue; }
    n++;
    std::string prob, wr = vh::Walk(*R.root, prob), wx = vh::Walk(*R.aux, prob);
    bool bad = false;
    if (!prob.empty()) { vh::fail(i, "accessor", prob); bad = true; }
    const bool isparse = r[2] == "parse";
    if (isparse && (ret ? "1" : "0") != r[9]) {
      vh::fail(i, "parse-verdict", std::string("Parse ") + (ret ? "accepts" : "rejects") + " a text the specification " + (ret ? "rejects" : "accepts") +
               " (error " + std::to_string((int)R.root->GetParseError()) + ") text=" + r[4].substr(0, 120));
      bad = true;
    }
    std::string c1 = vh::CompareTokens(r[7], wr, nullptr);
    if (!c1.empty()) { vh::fail(i, isparse ? "parse-state" : "state", "root after " + r[2] + ": " + c1 + " got=" + wr.substr(0, 160)); bad = true; }
    if (r[2] == "dump") {
      // what Dump() gives must be JSON that denotes the target (judged by parsing it back with the library and comparing
      // with the R-state the specification gives for the target, which the walk above has just confirmed)
      long c = atol(r[3].c_str());
      GenericDocument<DNode<B>> pd(&other);
      pd.Parse(R.dumped.data(), R.dumped.size());
      std::string p3, wt = vh::Walk(*R.T(c), p3);
      if (pd.HasParseError()) { vh::fail(i, "dump", "Dump() of cursor " + r[3] + " does not parse: " + R.dumped.substr(0, 120)); bad = true; }
      else {
        std::string p4, wd = vh::Walk(pd, p4);
        if (wd != wt) { vh::fail(i, "dump", "Dump() of cursor " + r[3] + " denotes another value: " + R.dumped.substr(0, 120)); bad = true; }
      }
      if (r[6] != "-" && vh::unhex(r[6]) != R.dumped) R.drift_dump++;
    }
    if (r[15] != "-" && vh::unhex(r[15]) != R.root->Dump()) R.drift_dump++;
    std::string c2 = vh::CompareTokens(r[8], wx, nullptr);
    if (!c2.empty()) { vh::fail(i, "state", "aux after " + r[2] + ": " + c2 + " got=" + wx.substr(0, 160)); bad = true; }
    if (r[2] == "copytoauxown" || r[2] == "copyfromauxown") {
      std::string be = borrows(r[2] == "copytoauxown" ? *R.aux : *R.T(atol(r[3].c_str())));
      if (!be.empty()) { vh::fail(i, "copy", "CopyFrom(..., copyString = true): " + be); bad = true; }
    }
    if (r[2] == "removemember" && (ret ? "1" : "0") != r[9]) { vh::fail(i, "retval", "RemoveMember returned " + std::to_string(ret)); bad = true; }
    std::string al = absent_lookups(*R.root);
    if (al.empty()) al = absent_lookups(*R.aux);
    if (al.empty()) al = present_lookups(*R.root);
    if (al.empty()) al = present_lookups(*R.aux);
    if (!al.empty()) { vh::fail(i, "lookup", al); bad = true; }
    if (R.root->IsContainer() && R.root->Size() > R.root->Capacity()) { vh::fail(i, "capacity", "Size() > Capacity()"); bad = true; }
    // C18: equality
    if (r[13] == "1") {
      bool want = r[14] == "1";
      bool eq1 = (*R.root == *R.aux), eq2 = (*R.aux == *R.root), ne = (*R.root != *R.aux);
      if (eq1 != want || eq2 != want || ne == want) {
        vh::fail(i, "equality", "root==aux -> " + std::to_string(eq1) + ", aux==root -> " + std::to_string(eq2) + ", != -> " + std::to_string(ne) + ", JSON equality says " + std::to_string(want));
        bad = true;
      }
      if (!(*R.root == *R.root)) { vh::fail(i, "equality", "root == root is false"); bad = true; }
      // deep copy into the other allocator type: equal both ways, same value, independent
      {
        DNode<B> cp(*R.root, other);
        if (!(*R.root == cp) || !(cp == *R.root)) { vh::fail(i, "equality", "deep copy in another allocator type is not == to its source"); bad = true; }
        std::string p2, wc = vh::Walk(cp, p2);
        if (wc != wr) { vh::fail(i, "copy", "deep copy walks differently: " + wc.substr(0, 120)); bad = true; }
        // parse of the serialised text is equal to the original
        std::string dump = R.root->Dump();
        GenericDocument<DNode<B>> pd(&other);
        pd.Parse(dump.data(), dump.size());
        if (pd.HasParseError()) { vh::fail(i, "dump", "Dump() does not parse: " + dump.substr(0, 120)); bad = true; }
        else if (!(pd == *R.root) || !(*R.root == pd)) { vh::fail(i, "equality", "parse of Dump() is not == to the original: " + dump.substr(0, 120)); bad = true; }
      }
    }
    // DRIFT only: predicted capacity and ledger size
    if (R.root->IsContainer() && atol(r[11].c_str()) >= 0 && (long)R.root->Capacity() != atol(r[11].c_str())) R.drift_cap++;
    if (track && (long)L.live.size() != atol(r[10].c_str())) R.drift_ledger++;
    if (track && !L.problems.empty()) {
      for (auto& p : L.problems) vh::fail(i, "ledger", p);
      L.problems.clear();
      bad = true;
    }
    if (bad) skip_beh = true;   // the real state has diverged: later steps of this behaviour are meaningless
  }
  R.root.reset();
  R.aux.reset();
  if (track && !L.live.empty()) vh::fail(cs.rows.size() - 1, "leak", "blocks still allocated at the end: " + std::to_string(L.live.size()));
  if (L.log) { L.mark("reset"); fclose(L.log); }
  printf("DRIFT\tcap\t%llu\tledger\t%llu\tdump\t%llu\n", (unsigned long long)R.drift_cap, (unsigned long long)R.drift_ledger, (unsigned long long)R.drift_dump);
  printf("N\t%llu\n", (unsigned long long)n);
  return 0;
}

int main(int argc, char** argv) {
  if (argc < 6) { fprintf(stderr, "usage\n"); return 3; }
  vh::Cases cs;
  cs.load(argv[3]);
  vh::Progress pg;
  pg.open(argv[4]);
  size_t start = strtoull(argv[5], 0, 10);
  // restart only at a behaviour boundary
  while (start > 0 && start < cs.rows.size() && cs.rows[start][1] != "0") start++;
  if (std::string(argv[1]) == "pool") return run<MemoryPoolAllocator<>, SimpleAllocator>(argv[2], cs, pg, start);
  return run<vh::TrackAllocator, MemoryPoolAllocator<>>(argv[2], cs, pg, start);
}
