// Replayer for on-demand lookup (C10, C11, C05 on-demand keys, C15 digests).
// usage: rt_ondemand <mode:c10|c11> <pads,comma> <digest_out|-> <cases.tsv> <progress> <start>
// case row: id  texthex  path  found(0/1)  tokens
//   path: steps joined by '/', each 'k:<hex>' (key bytes) or 'i:<int>'; '-' = empty path
// c10 (valid texts): success iff Lookup defined; slice inside input and denotes the expected value;
//      ParseOnDemand yields the same value; AtPointer on the full parse agrees; failure => code != 0 and
//      empty slice.
// c11 (arbitrary bytes): no fault; success => slice inside [data, data+len) and offset <= len.
// Buffers: exact-size heap block (ASan builds see any over/under-read) and, in non-ASan builds, a block
// ending at the last byte of a mapped page before PROT_NONE and a block starting at a page start after
// PROT_NONE.
#include "sonic/sonic.h"
#include "vh.h"
#include "walk.h"

using namespace sonic_json;

static JsonPointer make_path(const std::string& p) {
  JsonPointer jp;
  if (p == "-") return jp;
  for (auto& s : vh::split(p, '/')) {
    if (s[0] == 'k') jp.push_back(JsonPointerNode(vh::unhex(s.substr(2))));
    else jp.push_back(JsonPointerNode(atoi(s.c_str() + 2)));
  }
  return jp;
}

struct Out {
  int err; size_t off; long sbeg; size_t slen; bool fault_range;
};

static std::string run_one(const char* buf, size_t len, const JsonPointer& path, bool c10, bool found,
                           const std::string& tokens, Out* o) {
  StringView target("sentinel-not-cleared");
  ParseResult r = GetOnDemand(StringView(buf, len), path, target);
  int err = (int)r.Error();
  o->err = err; o->off = r.Offset(); o->sbeg = -1; o->slen = 0;
  char b[200];
  if (err == 0) {
    const char* tb = target.data();
    size_t tl = target.size();
    bool inside = tb >= buf && tb <= buf + len && tl <= len && tb + tl <= buf + len;
    if (!inside) {
      snprintf(b, sizeof b, "success but slice [%ld,+%zu) not inside input of length %zu", (long)(tb - buf), tl, len);
      return std::string("slice-range|") + b;
    }
    o->sbeg = tb - buf; o->slen = tl;
    if (r.Offset() > len) {
      snprintf(b, sizeof b, "success but offset %zu > len %zu", r.Offset(), len);
      return std::string("offset-range|") + b;
    }
    if (!c10) return "";
    if (!found) {
      snprintf(b, sizeof b, "path does not resolve but a slice [%ld,+%zu) was returned: ", (long)(tb - buf), tl);
      return std::string("phantom|") + b + std::string(tb, tl).substr(0, 60);
    }
    // the slice must denote the expected value
    Document d;
    d.Parse(tb, tl);
    if (d.HasParseError()) return "slice-unparsable|slice does not parse: " + std::string(tb, tl).substr(0, 80);
    std::string prob;
    std::string w = vh::Walk(d, prob);
    std::string c = vh::CompareTokens(tokens, w, nullptr);
    if (!c.empty()) return "slice-value|" + c + " slice=" + std::string(tb, tl).substr(0, 80);
    return "";
  }
  // failure
  if (err < 0 || err >= (int)kErrorNums) {
    snprintf(b, sizeof b, "error code %d out of range", err);
    return std::string("code-range|") + b;
  }
  if (target.size() != 0) return "target-not-cleared|failure but target not empty";
  if (!c10) return "";
  if (found) {
    snprintf(b, sizeof b, "path resolves in the document but on-demand returned error %d at %zu", err, r.Offset());
    return std::string("missed|") + b;
  }
  return "";
}

int main(int argc, char** argv) {
  if (argc < 7) { fprintf(stderr, "usage\n"); return 3; }
  bool c10 = std::string(argv[1]) == "c10";
  std::vector<size_t> pads;
  for (auto& s : vh::split(argv[2], ',')) pads.push_back(strtoul(s.c_str(), 0, 10));
  std::string digest_out = argv[3];
  vh::Cases cs;
  cs.load(argv[4]);
  vh::Progress pg;
  pg.open(argv[5]);
  size_t start = strtoull(argv[6], 0, 10);
  FILE* dg = digest_out == "-" ? nullptr : fopen(digest_out.c_str(), start ? "a" : "w");
  vh::GuardBuf gend, gstart;
#if defined(__SANITIZE_ADDRESS__)
  const bool guard = false;
#else
  const bool guard = true;
#endif
  uint64_t n = 0;
  for (size_t i = start; i < cs.rows.size(); i++) {
    auto& r = cs.rows[i];
    if (r.size() < 5) continue;
    pg.set(i);
    std::string text = vh::unhex(r[1]);
    JsonPointer path = make_path(r[2]);
    bool found = r[3] == "1";
    const std::string& tokens = r[4];
    bool first = true;
    for (size_t pad : pads) {
      size_t len = pad + text.size();
      char* buf = (char*)malloc(len ? len : 1);
      memset(buf, ' ', pad);
      memcpy(buf + pad, text.data(), text.size());
      Out o, o2;
      std::string e = run_one(buf, len, path, c10, found, tokens, &o);
      if (!e.empty()) { auto p = e.find('|'); vh::fail(i, ("od:" + e.substr(0, p)).c_str(), e.substr(p + 1) + " pad=" + std::to_string(pad)); }
      if (first && dg)
        fprintf(dg, "%s\t%d\t%d\t%ld\t%zu\n", r[0].c_str(), (int)(o.err == 0), o.err, o.sbeg, o.slen);
      if (guard) {
        // same bytes ending exactly at a page end / starting exactly at a page start
        char* g = gend.place_end(len);
        memcpy(g, buf, len);
        e = run_one(g, len, path, c10, found, tokens, &o2);
        if (!e.empty()) { auto p = e.find('|'); vh::fail(i, ("od-pageend:" + e.substr(0, p)).c_str(), e.substr(p + 1) + " pad=" + std::to_string(pad)); }
        if (o2.err != o.err || o2.sbeg != o.sbeg || o2.slen != o.slen)
          vh::fail(i, "od:placement", "result depends on buffer placement (heap vs page end) pad=" + std::to_string(pad));
        if (first) {
          char* h = gstart.place_start(len, 0x22 /* '"' garbage after the buffer */);
          memcpy(h, buf, len);
          e = run_one(h, len, path, c10, found, tokens, &o2);
          if (!e.empty()) { auto p = e.find('|'); vh::fail(i, ("od-pagestart:" + e.substr(0, p)).c_str(), e.substr(p + 1)); }
          if (o2.err != o.err || o2.sbeg != o.sbeg || o2.slen != o.slen)
            vh::fail(i, "od:placement", "result depends on buffer placement (heap vs page start with trailing garbage)");
        }
      }
      if (c10 && first) {
        // Document::ParseOnDemand and AtPointer on the full parse
        Document pod;
        pod.ParseOnDemand(buf, len, path);
        if (found) {
          if (pod.HasParseError()) vh::fail(i, "pod:missed", "ParseOnDemand failed with code " + std::to_string((int)pod.GetParseError()));
          else {
            std::string prob, w = vh::Walk(pod, prob);
            std::string c = vh::CompareTokens(tokens, w, nullptr);
            if (!c.empty()) vh::fail(i, "pod:value", c);
          }
        } else if (!pod.HasParseError()) {
          vh::fail(i, "pod:phantom", "ParseOnDemand succeeded for a path that does not resolve");
        }
        Document full;
        full.Parse(buf, len);
        if (!full.HasParseError()) {
          auto* at = full.AtPointer(path);
          if (found) {
            if (!at) vh::fail(i, "atptr:missed", "AtPointer returned null for a resolving path");
            else {
              std::string prob, w = vh::Walk(*at, prob);
              std::string c = vh::CompareTokens(tokens, w, nullptr);
              if (!c.empty()) vh::fail(i, "atptr:value", c);
            }
          } else if (at) {
            vh::fail(i, "atptr:phantom", "AtPointer returned a node for a path that does not resolve");
          }
        }
      }
      free(buf);
      first = false;
      n++;
    }
  }
  if (dg) fclose(dg);
  printf("N\t%" PRIu64 "\n", n);
  return 0;
}
