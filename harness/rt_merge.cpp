// Replayer for ParseSchema (C19) and UpdateLazy (C20) on TLC-generated pairs of texts.
// usage: rt_merge <mode:schema|lazy> <cases.tsv> <progress> <start>
// schema row: id ehex vhex exp_tokens exp2_tokens [v2hex exp12_tokens]  (existing document text, schema text, expected after one /
//             two applications; optionally a second, different schema text and the expected value after v then v2)
// lazy   row: id thex shex exp_tokens
#include "sonic/experiment/lazy_update.h"
#include "sonic/sonic.h"
#include "vh.h"
#include "walk.h"

using namespace sonic_json;
using SDoc = GenericDocument<DNode<SimpleAllocator>>;

template <typename Doc>
static void schema_case(size_t i, const char* tag, const std::string& e, const std::string& v, const std::string& exp, const std::string& exp2) {
  Doc d;
  d.Parse(e.data(), e.size());
  if (d.HasParseError()) { vh::fail(i, "harness", "existing text does not parse"); return; }
  d.ParseSchema(v.data(), v.size());
  if (d.HasParseError()) { vh::fail(i, (std::string(tag) + ":parse-error").c_str(), "ParseSchema reports error " + std::to_string((int)d.GetParseError()) + " on a valid text"); return; }
  std::string prob, w = vh::Walk(d, prob);
  if (!prob.empty()) vh::fail(i, (std::string(tag) + ":accessor").c_str(), prob);
  std::string c = vh::CompareTokens(exp, w, nullptr);
  if (!c.empty()) { vh::fail(i, (std::string(tag) + ":merge").c_str(), c + " got=" + w.substr(0, 6000)); return; }
  // the result serialises and parses back to itself (the document is not corrupted)
  std::string dump = d.Dump();
  Document back;
  back.Parse(dump.data(), dump.size());
  std::string p2;
  if (back.HasParseError() || vh::Walk(back, p2) != w) vh::fail(i, (std::string(tag) + ":dump").c_str(), "Dump of the merged document does not read back: " + dump.substr(0, 100));
  // repeated application
  d.ParseSchema(v.data(), v.size());
  if (d.HasParseError()) { vh::fail(i, (std::string(tag) + ":parse-error").c_str(), "second ParseSchema reports an error"); return; }
  std::string p3, w2 = vh::Walk(d, p3);
  c = vh::CompareTokens(exp2, w2, nullptr);
  if (!c.empty()) vh::fail(i, (std::string(tag) + ":merge2").c_str(), "after a second application: " + c + " got=" + w2.substr(0, 6000));
}

// a sequence of two different updates on one document
template <typename Doc>
static void schema_seq(size_t i, const char* tag, const std::string& e, const std::string& v, const std::string& v2, const std::string& exp12) {
  Doc d;
  d.Parse(e.data(), e.size());
  if (d.HasParseError()) return;
  d.ParseSchema(v.data(), v.size());
  if (d.HasParseError()) return;                       // reported by schema_case
  d.ParseSchema(v2.data(), v2.size());
  if (d.HasParseError()) { vh::fail(i, (std::string(tag) + ":parse-error").c_str(), "ParseSchema of a second text reports error " + std::to_string((int)d.GetParseError())); return; }
  std::string prob, w = vh::Walk(d, prob);
  if (!prob.empty()) vh::fail(i, (std::string(tag) + ":accessor").c_str(), prob);
  std::string c = vh::CompareTokens(exp12, w, nullptr);
  if (!c.empty()) vh::fail(i, (std::string(tag) + ":merge12").c_str(), "after two different updates: " + c + " got=" + w.substr(0, 6000));
}

int main(int argc, char** argv) {
  if (argc < 5) { fprintf(stderr, "usage\n"); return 3; }
  std::string mode = argv[1];
  vh::Cases cs;
  cs.load(argv[2]);
  vh::Progress pg;
  pg.open(argv[3]);
  size_t start = strtoull(argv[4], 0, 10);
  uint64_t n = 0;
  for (size_t i = start; i < cs.rows.size(); i++) {
    auto& r = cs.rows[i];
    pg.set(i);
    n++;
    if (mode == "schema") {
      if (r.size() < 5) continue;
      std::string e = vh::unhex(r[1]), v = vh::unhex(r[2]);
      schema_case<Document>(i, "pool", e, v, r[3], r[4]);
      schema_case<SDoc>(i, "simple", e, v, r[3], r[4]);
      if (r.size() >= 7 && r[5] != "") {
        std::string v2 = vh::unhex(r[5]);
        schema_seq<Document>(i, "pool", e, v, v2, r[6]);
        schema_seq<SDoc>(i, "simple", e, v, v2, r[6]);
      }
    } else {
      if (r.size() < 4) continue;
      std::string t = vh::unhex(r[1]), s = vh::unhex(r[2]);
      // exact-size heap copies: UpdateLazy scans the caller's unpadded buffers
      char* tb = (char*)malloc(t.size() ? t.size() : 1); memcpy(tb, t.data(), t.size());
      char* sb = (char*)malloc(s.size() ? s.size() : 1); memcpy(sb, s.data(), s.size());
      std::string out = UpdateLazy(StringView(tb, t.size()), StringView(sb, s.size()));
      free(tb); free(sb);
      Document d;
      d.Parse(out.data(), out.size());
      if (d.HasParseError()) { vh::fail(i, "lazy:unparsable", "UpdateLazy result is not JSON: " + out.substr(0, 120)); continue; }
      std::string prob, w = vh::Walk(d, prob);
      std::string c = vh::CompareTokens(r[3], w, nullptr);
      if (!c.empty()) vh::fail(i, "lazy:merge", c + " result=" + out.substr(0, 160));
    }
  }
  printf("N\t%llu\n", (unsigned long long)n);
  return 0;
}
