// A freeing allocator (kNeedFree = true) that numbers blocks, keeps a ledger, poisons freed memory
// and can log alloc/free events for Trace_Ownership (C13).  Usable as the Allocator parameter of
// DNode<> / GenericDocument<>.  All state is global (sonic calls Allocator::Free statically).
#pragma once
#include <cstdint>
#include <cstdio>
#include <cstdlib>
#include <cstring>
#include <string>
#include <unordered_map>
#include <vector>

namespace vh {

struct Ledger {
  struct Blk { uint64_t id; size_t size; };
  std::unordered_map<void*, Blk> live;
  uint64_t next_id = 1;
  uint64_t allocs = 0, frees = 0;
  std::vector<std::string> problems;     // double / foreign frees
  FILE* log = nullptr;                    // ndjson event log (optional)
  static Ledger& get() { static Ledger l; return l; }
  void ev(const char* e, uint64_t id, size_t sz) {
    if (log) fprintf(log, "{\"e\":\"%s\",\"id\":%llu,\"sz\":%zu}\n", e, (unsigned long long)id, sz);
  }
  void mark(const char* what) { if (log) fprintf(log, "{\"e\":\"%s\",\"id\":0,\"sz\":0}\n", what); }
  void* alloc(size_t n) {
    if (n == 0) return nullptr;
    void* p = std::malloc(n);
    if (!p) return nullptr;
    std::memset(p, 0xCD, n);
    live[p] = Blk{next_id, n};
    ev("alloc", next_id, n);
    next_id++;
    allocs++;
    return p;
  }
  void free_(void* p) {
    if (!p) return;
    auto it = live.find(p);
    if (it == live.end()) {
      char b[96];
      snprintf(b, sizeof b, "free of a block that is not live (double or foreign free) %p", p);
      problems.push_back(b);
      ev("badfree", 0, 0);
      return;                              // do not pass it to free(): keep the process alive
    }
    ev("free", it->second.id, it->second.size);
    std::memset(p, 0xDD, it->second.size);  // a later use reads poison
    live.erase(it);
    frees++;
    std::free(p);
  }
  void* realloc_(void* p, size_t old_size, size_t n) {
    if (n == 0) { free_(p); return nullptr; }
    if (!p) return alloc(n);
    auto it = live.find(p);
    if (it == live.end()) {
      problems.push_back("realloc of a block that is not live");
      return alloc(n);
    }
    void* q = alloc(n);                    // always move: stale pointers into the old block show
    size_t c = it->second.size < n ? it->second.size : n;
    std::memcpy(q, p, c);
    free_(p);
    return q;
  }
};

class TrackAllocator {
 public:
  void* Malloc(size_t size) { return Ledger::get().alloc(size); }
  void* Realloc(void* old_ptr, size_t old_size, size_t new_size) {
    return Ledger::get().realloc_(old_ptr, old_size, new_size);
  }
  static void Free(void* ptr) { Ledger::get().free_(ptr); }
  bool operator==(const TrackAllocator&) const { return true; }
  bool operator!=(const TrackAllocator&) const { return false; }
  static constexpr bool kNeedFree = true;
};

}  // namespace vh
