// Amplification for C08 (outside TLC): every value of the low 8-digit group, of the second group and of
// a 17-20 digit prefix pattern is printed by U64toa and compared with a transliteration of
// Trace_Num!ItoaOk (optional '-', then exactly the digits).  usage: sweep_itoa <count>
#include "sonic/sonic.h"
#include <cstdio>
#include <cstring>
using namespace sonic_json;
static int digits_of(uint64_t v, char* o) { char t[24]; int n = 0; do { t[n++] = char('0' + v % 10); v /= 10; } while (v); for (int i = 0; i < n; i++) o[i] = t[n - 1 - i]; return n; }
int main(int argc, char** argv) {
  uint64_t cnt = argc > 1 ? strtoull(argv[1], 0, 10) : 100000000ull;
  uint64_t step = 100000000ull / cnt; if (!step) step = 1;
  uint64_t checked = 0;
  char a[32], b[32];
  const uint64_t offs[] = {0ull, 100000000ull /*9 digits*/, 1234ull * 10000000000000000ull /*20 digits*/};
  const uint64_t muls[] = {1ull, 1ull, 1ull};
  for (int k = 0; k < 3; k++)
    for (uint64_t g = 0; g < 100000000ull; g += step) {
      uint64_t v = offs[k] + g * muls[k];
      uint64_t w = (k == 2) ? offs[k] + g * 100000000ull + (g % 100000000ull) : v;   // both 8-digit groups of the 16-digit tail
      char* e = internal::U64toa(a, w);
      int n = digits_of(w, b);
      if (e - a != n || memcmp(a, b, n) != 0) { printf("MISMATCH value %llu printed as %.*s\n", (unsigned long long)w, (int)(e - a), a); return 1; }
      checked++;
    }
  // every value of the leading part: 1..9999 in front of one 8-digit group (9..12 digits) and in front of two (17..20
  // digits: 1..1844, the last one only up to 2^64 - 1), with all-zero, all-nine and mixed tails
  {
    const uint64_t tails8[] = {0ull, 99999999ull, 12345678ull, 10002000ull};
    for (uint64_t lead = 1; lead <= 9999; lead++)
      for (uint64_t t : tails8) {
        uint64_t w = lead * 100000000ull + t;
        char* e = internal::U64toa(a, w);
        int n = digits_of(w, b);
        if (e - a != n || memcmp(a, b, n) != 0) { printf("MISMATCH value %llu printed as %.*s\n", (unsigned long long)w, (int)(e - a), a); return 1; }
        checked++;
      }
    const uint64_t tails16[] = {0ull, 9999999999999999ull, 1234567890123456ull, 1000200030004000ull};
    for (uint64_t lead = 1; lead <= 1844; lead++)
      for (uint64_t t : tails16) {
        if (lead == 1844 && t > 6744073709551615ull) continue;
        uint64_t w = lead * 10000000000000000ull + t;
        char* e = internal::U64toa(a, w);
        int n = digits_of(w, b);
        if (e - a != n || memcmp(a, b, n) != 0) { printf("MISMATCH value %llu printed as %.*s\n", (unsigned long long)w, (int)(e - a), a); return 1; }
        checked++;
        if (w <= 9223372036854775807ull) {
          char* e2 = internal::I64toa(a, -(int64_t)w);
          if (a[0] != '-' || e2 - a != n + 1 || memcmp(a + 1, b, n) != 0) { printf("MISMATCH value -%llu printed as %.*s\n", (unsigned long long)w, (int)(e2 - a), a); return 1; }
        }
      }
  }
  printf("ok checked %llu\n", (unsigned long long)checked);
  return 0;
}
