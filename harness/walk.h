// Accessor-API walk of a sonic node into the canonical token string used by the corpora
// (tokens separated by one space):
//   n t f  s:<hex>  u:<dec>  i:<dec>  d:<16 hex digits of the bit pattern>
//   [ v v ... ]   { k:<hex> v k:<hex> v ... }
// While walking, every accessor the properties name is cross-checked against the others
// (Size vs iteration, Is* exclusivity, FindMember/HasMember/operator[] vs linear order ...).
#pragma once
#include <string>

#include "sonic/sonic.h"
#include "vh.h"

namespace vh {

template <typename Node>
void WalkInto(const Node& n, std::string& out, std::string& prob, int depth = 0) {
  int kinds = int(n.IsNull()) + int(n.IsBool()) + int(n.IsNumber()) + int(n.IsString()) +
              int(n.IsArray()) + int(n.IsObject()) + int(n.IsRaw());
  if (kinds != 1) prob += "kind-tests-not-exclusive;";
  if (n.IsContainer() != (n.IsArray() || n.IsObject())) prob += "IsContainer;";
  if (n.IsNull()) { out += "n "; return; }
  if (n.IsBool()) {
    if (n.IsTrue() == n.IsFalse()) prob += "IsTrue==IsFalse;";
    if (n.GetBool() != n.IsTrue()) prob += "GetBool;";
    out += n.IsTrue() ? "t " : "f ";
    return;
  }
  if (n.IsNumber()) {
    char buf[64];
    if (n.IsUint64()) {
      snprintf(buf, sizeof buf, "u:%" PRIu64 " ", n.GetUint64());
      if (n.IsDouble()) prob += "uint-and-double;";
      if (n.IsInt64() != (n.GetUint64() <= (uint64_t)INT64_MAX)) prob += "IsInt64-on-uint;";
    } else if (n.IsInt64()) {
      snprintf(buf, sizeof buf, "i:%" PRId64 " ", n.GetInt64());
      if (n.IsDouble()) prob += "sint-and-double;";
    } else if (n.IsDouble()) {
      double d = n.GetDouble();
      uint64_t b;
      memcpy(&b, &d, 8);
      snprintf(buf, sizeof buf, "d:%016" PRIx64 " ", b);
    } else {
      snprintf(buf, sizeof buf, "?num ");
      prob += "number-without-kind;";
    }
    out += buf;
    return;
  }
  if (n.IsString()) {
    auto sv = n.GetStringView();
    if (n.Size() != sv.size()) prob += "string-Size;";
    if (n.GetString() != std::string(sv.data(), sv.size())) prob += "GetString;";
    out += "s:" + hex(sv.data(), sv.size()) + " ";
    return;
  }
  if (n.IsArray()) {
    out += "[ ";
    size_t cnt = 0;
    for (auto it = n.Begin(); it != n.End(); ++it) {
      if (cnt < 4 && &n[cnt] != &*it) prob += "array-index-vs-iter;";
      WalkInto(*it, out, prob, depth + 1);
      cnt++;
    }
    if (cnt != n.Size()) prob += "array-Size;";
    if (n.Empty() != (cnt == 0)) prob += "array-Empty;";
    if (cnt && &n.Back() != &n[cnt - 1]) prob += "array-Back;";
    out += "] ";
    return;
  }
  if (n.IsObject()) {
    out += "{ ";
    size_t cnt = 0;
    for (auto it = n.MemberBegin(); it != n.MemberEnd(); ++it) {
      if (!it->name.IsString()) { prob += "key-not-string;"; out += "k:? "; }
      else {
        auto k = it->name.GetStringView();
        out += "k:" + hex(k.data(), k.size()) + " ";
        // lookup must find a member with exactly these key bytes; the first one in order when no
        // lookup map exists
        auto f = n.FindMember(k);
        if (f == n.MemberEnd()) prob += "FindMember-misses-present-key;";
        else {
          auto fk = f->name.GetStringView();
          if (fk.size() != k.size() || memcmp(fk.data(), k.data(), k.size()) != 0)
            prob += "FindMember-wrong-key;";
        }
        if (!n.HasMember(k)) prob += "HasMember-misses-present-key;";
      }
      WalkInto(it->value, out, prob, depth + 1);
      cnt++;
    }
    if (cnt != n.Size()) prob += "object-Size;";
    if (n.Empty() != (cnt == 0)) prob += "object-Empty;";
    out += "} ";
    return;
  }
  out += "?raw ";
}

template <typename Node>
std::string Walk(const Node& n, std::string& prob) {
  std::string out;
  WalkInto(n, out, prob);
  if (!out.empty() && out.back() == ' ') out.pop_back();
  return out;
}

// Compare expected tokens with observed tokens.  Expected may contain
//   z                 : an integer spelling "-0": either u:0 or i:0
//   D:<neg>:<digits>:<e10> : a real; the observed token must be d:<bits>; the pair is appended
//                       to 'pairs' ("<neg>:<digits>:<e10> <bits>") to be judged by TLC (C04).
// Returns "" if they agree, else a description.
inline std::string CompareTokens(const std::string& exp, const std::string& got,
                                 std::vector<std::string>* pairs) {
  if (exp == got) return "";
  auto a = split(exp, ' '), b = split(got, ' ');
  if (a.size() != b.size()) return "token-count " + std::to_string(a.size()) + " vs " + std::to_string(b.size());
  for (size_t i = 0; i < a.size(); i++) {
    if (a[i] == b[i]) continue;
    if (a[i] == "z" && (b[i] == "u:0" || b[i] == "i:0")) continue;
    if (a[i].size() > 2 && a[i][0] == 'D' && b[i].size() == 18 && b[i][0] == 'd') {
      if (pairs) pairs->push_back(a[i].substr(2) + " " + b[i].substr(2));
      continue;
    }
    return "token " + std::to_string(i) + ": expected " + a[i] + " got " + b[i];
  }
  return "";
}

}  // namespace vh
