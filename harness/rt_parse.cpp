// Replayer for TLC-generated text corpora through Document::Parse (C01, C02, C03, C05, C15).
// usage: rt_parse <pads,comma> <pairs_out|-> <digest_out|-> <cases.tsv> <progress> <start>
// case row: id  texthex  ok(0/1)  why  scope(one|str|mix)  tokens  cls
//   why    : R-model fault class ("" on success): eof seof ctl esc hex sur lit num inf chr trail
//   tokens : canonical token string of Denote(text) (walk.h), "-" on failure
// Oracles (DESIGN appendix A, C01/C03): accept iff ok; on success code 0, offset = len, accessor
// walk = Denote; on failure IsNull, code names the fault class, 0 <= offset <= len.
#include <memory>

#include "sonic/sonic.h"
#include "vh.h"
#include "walk.h"
#if defined(__SANITIZE_ADDRESS__)
#include <sanitizer/lsan_interface.h>
#define VH_LEAKCHECK() __lsan_do_recoverable_leak_check()
#else
#define VH_LEAKCHECK() 0
#endif

using namespace sonic_json;
using PoolDoc = Document;
using SimpleDoc = GenericDocument<DNode<SimpleAllocator>>;

static std::vector<std::string>* g_pairs = nullptr;

// scope: "one" = the text has exactly one fault (a string-content fault or an overflow): the exact
// class is demanded; "str" = several string-content faults (a block-wise scanner may meet any of
// them first); "mix" = other faults as well: any class among them.
static bool code_allowed(const std::string& why, const std::string& scope, int code) {
  auto in = [&](std::initializer_list<int> l) { for (int x : l) if (x == code) return true; return false; };
  bool strf = why == "ctl" || why == "esc" || why == "hex" || why == "sur" || why == "seof";
  if (strf && scope == "mix") return in({1, 2, 4, 5, 6});
  if (strf && scope == "str") return in({4, 5, 6});
  if (why == "ctl") return code == 4;
  if (why == "esc") return code == 5;
  if (why == "hex" || why == "sur") return code == 6;
  if (why == "inf") return scope == "one" ? code == 3 : in({1, 2, 3});
  return in({1, 2});  // eof lit num chr trail
}

template <typename Doc>
static std::string check(Doc& d, const char* data, size_t len, size_t pad, bool ok,
                         const std::string& why, const std::string& strict, const std::string& tokens,
                         std::string* walked, int* codeout) {
  d.Parse(data, len);
  int code = (int)d.GetParseError();
  size_t off = d.GetErrorOffset();
  if (codeout) *codeout = code;
  char b[160];
  if (ok) {
    if (d.HasParseError() || code != 0) {
      snprintf(b, sizeof b, "valid text rejected: code=%d off=%zu len=%zu pad=%zu", code, off, len, pad);
      return std::string("reject-valid|") + b;
    }
    if (off != len) {
      snprintf(b, sizeof b, "success offset %zu != len %zu pad=%zu", off, len, pad);
      return std::string("ok-offset|") + b;
    }
    std::string prob;
    std::string w = vh::Walk(d, prob);
    if (walked) *walked = w;
    if (!prob.empty()) return "accessor|" + prob + " pad=" + std::to_string(pad);
    std::string c = vh::CompareTokens(tokens, w, g_pairs);
    if (!c.empty()) return "value|" + c + " pad=" + std::to_string(pad) + " got=" + w.substr(0, 200);
    return "";
  }
  if (!d.HasParseError() || code == 0) {
    snprintf(b, sizeof b, "invalid text accepted (R-model fault %s) pad=%zu", why.c_str(), pad);
    std::string prob;
    return std::string("accept-invalid|") + b + " got=" + vh::Walk(d, prob).substr(0, 120);
  }
  if (!d.IsNull()) return "notnull-after-error|document not null after failed parse";
  if (!((code >= 1 && code <= 7) || code == 15)) {
    snprintf(b, sizeof b, "error code %d is not a parse error code", code);
    return std::string("code-range|") + b;
  }
  if (off > len) {
    snprintf(b, sizeof b, "error offset %zu > len %zu (pad=%zu code=%d)", off, len, pad, code);
    return std::string("offset-range|") + b;
  }
  if (!code_allowed(why, strict, code)) {
    snprintf(b, sizeof b, "fault class %s%s reported as code %d (pad=%zu)", why.c_str(),
             strict == "one" ? " (single fault)" : "", code, pad);
    return std::string("code-class|") + b;
  }
  return "";
}

int main(int argc, char** argv) {
  if (argc < 7) { fprintf(stderr, "usage\n"); return 3; }
  std::vector<size_t> pads;
  for (auto& s : vh::split(argv[1], ',')) pads.push_back(strtoul(s.c_str(), 0, 10));
  std::string pairs_out = argv[2], digest_out = argv[3];
  vh::Cases cs;
  cs.load(argv[4]);
  vh::Progress pg;
  pg.open(argv[5]);
  size_t start = strtoull(argv[6], 0, 10);
  std::vector<std::string> pairs;
  std::unordered_set<std::string> pairset;
  g_pairs = &pairs;
  FILE* dg = digest_out == "-" ? nullptr : fopen(digest_out.c_str(), start ? "a" : "w");
  FILE* pf = pairs_out == "-" ? nullptr : fopen(pairs_out.c_str(), start ? "a" : "w");

  auto reusedPool = std::make_unique<PoolDoc>();
  auto reusedSimple = std::make_unique<SimpleDoc>();
  uint64_t n = 0;
  for (size_t i = start; i < cs.rows.size(); i++) {
    auto& r = cs.rows[i];
    if (r.size() < 7) continue;
    pg.set(i);
    std::string text = vh::unhex(r[1]);
    bool ok = r[2] == "1";
    const std::string& why = r[3];
    const std::string& strict = r[4];
    const std::string& tokens = r[5];
    bool first = true;
    for (size_t pad : pads) {
      size_t len = pad + text.size();
      // exact-size heap block: an over-read of the *caller's* buffer is visible to ASan
      char* buf = (char*)malloc(len ? len : 1);
      memset(buf, ' ', pad);
      memcpy(buf + pad, text.data(), text.size());
      std::string w;
      int code = 0;
      std::string e = check(*reusedPool, buf, len, pad, ok, why, strict, tokens, &w, &code);
      if (!e.empty()) { auto p = e.find('|'); vh::fail(i, ("pool:" + e.substr(0, p)).c_str(), e.substr(p + 1)); }
      if (first && dg) {
        // digest for C15: accept/reject, error class (except inside string faults), value, Dump
        bool strfault = why == "ctl" || why == "esc" || why == "hex" || why == "sur" || why == "seof";
        std::string dump = reusedPool->HasParseError() ? std::string() : reusedPool->Dump();
        fprintf(dg, "%s\t%d\t%d\t%016" PRIx64 "\t%016" PRIx64 "\n", r[0].c_str(), (int)!reusedPool->HasParseError(),
                strfault ? -1 : code, vh::fnv(w), vh::fnv(dump));
      }
      e = check(*reusedSimple, buf, len, pad, ok, why, strict, tokens, nullptr, nullptr);
      if (!e.empty()) { auto p = e.find('|'); vh::fail(i, ("simple:" + e.substr(0, p)).c_str(), e.substr(p + 1)); }
      if (first) {
        {
          PoolDoc fresh;
          e = check(fresh, buf, len, pad, ok, why, strict, tokens, nullptr, nullptr);
          if (!e.empty()) { auto p = e.find('|'); vh::fail(i, ("freshpool:" + e.substr(0, p)).c_str(), e.substr(p + 1)); }
        }
        {
          SimpleDoc fresh;
          e = check(fresh, buf, len, pad, ok, why, strict, tokens, nullptr, nullptr);
          if (!e.empty()) { auto p = e.find('|'); vh::fail(i, ("freshsimple:" + e.substr(0, p)).c_str(), e.substr(p + 1)); }
        }
      }
      free(buf);
      first = false;
      n++;
    }
    if (pf) {
      for (auto& p : pairs)
        if (pairset.insert(p).second) fprintf(pf, "%s\n", p.c_str());
    }
    pairs.clear();
    // every 64 cases drop the reused documents entirely (destruction after arbitrary history)
    if ((i & 63) == 63) {
      reusedPool = std::make_unique<PoolDoc>();
      reusedSimple = std::make_unique<SimpleDoc>();
      if (VH_LEAKCHECK()) vh::fail(i, "crash:leak", "LeakSanitizer: memory leaked while replaying cases " + std::to_string(i - 63) + ".." + std::to_string(i));
    }
  }
  reusedPool.reset();
  reusedSimple.reset();
  if (dg) fclose(dg);
  if (pf) fclose(pf);
  printf("N\t%" PRIu64 "\n", n);
  return 0;
}
