// Recorder for the numeric properties (C04, C07, C08): runs the real conversion routines on a list
// of inputs and writes one ndjson event per call for validation by TLC (spec/Trace_Num.tla).
// usage: rec_num <mode:parse|ftoa|itoa> <events_out> <inputs> <progress> <start>
//   parse: each input line is a JSON number spelling; event = {"k":"numtext","t":[bytes],"res":..,"dg":..,"w":..,"code":..}
//          (the spelling is also parsed as an array element and with leading/trailing blanks; any
//          disagreement between the placements is reported directly)
//   ftoa : each line is 16 hex digits (bit pattern); event = {"k":"ftoa","w":[4 words],"out":[bytes]}
//          (Serialize of a double node must give the same bytes; the library must parse them back)
//   itoa : each line is [-]digits (fits int64 if negative, uint64 otherwise);
//          event = {"k":"itoa","neg":0|1,"dg":[digits],"out":[bytes]}
#include "sonic/sonic.h"
#include "vh.h"

using namespace sonic_json;

static std::string jarr(const std::string& s) {
  std::string o = "[";
  for (size_t i = 0; i < s.size(); i++) { if (i) o += ","; o += std::to_string((unsigned char)s[i]); }
  return o + "]";
}
static std::string jdigits(const std::string& s) {
  std::string o = "[";
  for (size_t i = 0; i < s.size(); i++) { if (i) o += ","; o += std::to_string(s[i] - '0'); }
  return o + "]";
}
static std::string jwords(uint64_t b) {
  char t[64];
  snprintf(t, sizeof t, "[%u,%u,%u,%u]", (unsigned)(b >> 48) & 0xffff, (unsigned)(b >> 32) & 0xffff, (unsigned)(b >> 16) & 0xffff, (unsigned)b & 0xffff);
  return t;
}

static std::string hex64(uint64_t b) { char t[32]; snprintf(t, sizeof t, "%016llx", (unsigned long long)b); return t; }
struct PR { std::string res, dg; uint64_t bits = 0; int code = 0; };
template <typename Node>
static PR describe(const Node& n, bool err, int code) {
  PR r;
  if (err) { r.res = "err"; r.code = code; return r; }
  if (n.IsUint64()) { r.res = "uint"; r.dg = std::to_string(n.GetUint64()); }
  else if (n.IsInt64()) { r.res = "sint"; int64_t v = n.GetInt64(); uint64_t m = v < 0 ? (uint64_t)0 - (uint64_t)v : (uint64_t)v; r.dg = std::to_string(m); }
  else if (n.IsDouble()) { r.res = "double"; double d = n.GetDouble(); memcpy(&r.bits, &d, 8); }
  else r.res = "other";
  return r;
}
static PR parse_root(const std::string& t) {
  Document d;
  d.Parse(t.data(), t.size());
  return describe(d, d.HasParseError(), (int)d.GetParseError());
}
static PR parse_elem(const std::string& t, const std::string& pre, const std::string& post) {
  Document d;
  std::string s = pre + t + post;
  d.Parse(s.data(), s.size());
  if (d.HasParseError()) { PR r; r.res = "err"; r.code = (int)d.GetParseError(); return r; }
  if (d.IsArray()) return describe(d[0], false, 0);
  return describe(d.MemberBegin()->value, false, 0);
}
static bool same(const PR& a, const PR& b) { return a.res == b.res && a.dg == b.dg && a.bits == b.bits && a.code == b.code; }

int main(int argc, char** argv) {
  if (argc < 6) { fprintf(stderr, "usage\n"); return 3; }
  std::string mode = argv[1];
  size_t start = strtoull(argv[5], 0, 10);
  FILE* out = fopen(argv[2], start ? "a" : "w");
  vh::Cases cs;
  cs.load(argv[3]);
  vh::Progress pg;
  pg.open(argv[4]);
  uint64_t n = 0;
  for (size_t i = start; i < cs.rows.size(); i++) {
    pg.set(i);
    const std::string& in = cs.rows[i][0];
    n++;
    if (mode == "parse") {
      PR r = parse_root(in);
      PR e1 = parse_elem(in, "[", "]"), e2 = parse_elem(in, "  [ \n", " , 1]"), e3 = parse_elem(in, "{\"k\":", "}");
      PR e4 = parse_root(std::string(31, ' ') + in + " ");
      if (!same(r, e1) || !same(r, e2) || !same(r, e3) || !same(r, e4))
        vh::fail(i, "placement", "number " + in.substr(0, 60) + " parses differently as root / array element / member value / after blanks");
      fprintf(out, "{\"k\":\"numtext\",\"t\":%s,\"res\":\"%s\",\"dg\":%s,\"w\":%s,\"code\":%d}\n", jarr(in).c_str(), r.res.c_str(),
              jdigits(r.dg).c_str(), jwords(r.bits).c_str(), r.code);
    } else if (mode == "ftoa") {
      uint64_t b = strtoull(in.c_str(), 0, 16);
      double d;
      memcpy(&d, &b, 8);
      char buf[64];
      memset(buf, '#', sizeof buf);
      int len = internal::F64toa(buf, d);
      if (len <= 0 || len > 40) { vh::fail(i, "ftoa-len", "F64toa returned " + std::to_string(len) + " for " + in); continue; }
      std::string o(buf, len);
      for (int k = len; k < 64; k++) if (buf[k] != '#' && k >= 33) { vh::fail(i, "ftoa-overrun", "F64toa wrote beyond 33 bytes for " + in); break; }
      // Serialize of a double node gives the same bytes, and they parse back to the same double
      Node nd(d);
      WriteBuffer wb;
      SonicError se = nd.Serialize(wb);
      std::string ser = se == kErrorNone ? std::string(wb.ToString(), wb.Size()) : std::string("<error>");
      if (ser != o) vh::fail(i, "serialize-differs", "Serialize gives '" + ser + "', F64toa gives '" + o + "' for " + in);
      PR back = parse_root(o);
      if (back.res != "double" || back.bits != b) vh::fail(i, "lib-roundtrip", "'" + o + "' printed for " + in + " parses back as " + back.res + " " + hex64(back.bits));
      fprintf(out, "{\"k\":\"ftoa\",\"w\":%s,\"out\":%s}\n", jwords(b).c_str(), jarr(o).c_str());
    } else {
      bool neg = in[0] == '-';
      std::string dg = neg ? in.substr(1) : in;
      char buf[64];
      memset(buf, '#', sizeof buf);
      char* end;
      std::string ser;
      if (neg) {
        int64_t v = (int64_t)(0 - strtoull(dg.c_str(), 0, 10));
        end = internal::I64toa(buf, v);
        Node nd(v);
        ser = nd.Dump();
        PR back = parse_root(ser);
        if (back.res != "sint" || back.dg != dg) vh::fail(i, "lib-roundtrip", "I64 " + in + " dumps as " + ser + " and reads back as " + back.res + " " + back.dg);
      } else {
        uint64_t v = strtoull(dg.c_str(), 0, 10);
        end = internal::U64toa(buf, v);
        Node nd(v);
        ser = nd.Dump();
        PR back = parse_root(ser);
        if (back.res != "uint" || back.dg != dg) vh::fail(i, "lib-roundtrip", "U64 " + in + " dumps as " + ser + " and reads back as " + back.res + " " + back.dg);
        if (v <= (uint64_t)INT64_MAX) {   // the signed routine on non-negative values
          char b2[64];
          char* e2 = internal::I64toa(b2, (int64_t)v);
          if (std::string(b2, e2 - b2) != std::string(buf, end - buf)) vh::fail(i, "i64-vs-u64", "I64toa and U64toa differ on " + in);
        }
      }
      std::string o(buf, end - buf);
      if (ser != o) vh::fail(i, "serialize-differs", "Dump gives '" + ser + "', itoa gives '" + o + "' for " + in);
      if (o.size() > 20 + (neg ? 1 : 0)) vh::fail(i, "itoa-len", "more than 20 digits for " + in);
      fprintf(out, "{\"k\":\"itoa\",\"neg\":%d,\"dg\":%s,\"out\":%s}\n", neg ? 1 : 0, jdigits(dg).c_str(), jarr(o).c_str());
    }
  }
  fclose(out);
  printf("N\t%llu\n", (unsigned long long)n);
  return 0;
}
