// Conformance of the real Parser with the I-model spec/ParserPDA.tla at the level of SAX events (DRIFT
// reporting; the verdicts of C01-C03 come from the R-model replays).  A recording SAX handler is passed to the
// public Parser::Parse template on a padded copy of the text prepared like GenericDocument does.
// usage: rt_sax <cases.tsv> <progress> <start>      case row: id texthex err pos events
//   events: ';'-joined  SO SA EO<n> EA<n> K<hex> S<hex> N<kind> B<0|1> Z(null)
// output: 'D\t<id>\t<what>' lines for differences, 'N\t<count>'.
#include "sonic/sonic.h"
#include "vh.h"

using namespace sonic_json;

struct Rec {
  std::string ev;
  void add(const std::string& s) { if (!ev.empty()) ev += ';'; ev += s; }
  bool Null() { add("Z"); return true; }
  bool Bool(bool b) { add(b ? "B1" : "B0"); return true; }
  bool Uint(uint64_t) { add("Nuint"); return true; }
  bool Int(int64_t) { add("Nsint"); return true; }
  bool Double(double) { add("Nreal"); return true; }
  bool Key(StringView s) { add("K" + vh::hex(s.data(), s.size())); return true; }
  bool String(StringView s) { add("S" + vh::hex(s.data(), s.size())); return true; }
  bool StartObject() { add("SO"); return true; }
  bool StartArray() { add("SA"); return true; }
  bool EndObject(uint32_t n) { add("EO" + std::to_string(n)); return true; }
  bool EndArray(uint32_t n) { add("EA" + std::to_string(n)); return true; }
};

int main(int argc, char** argv) {
  if (argc < 4) return 3;
  vh::Cases cs;
  cs.load(argv[1]);
  vh::Progress pg;
  pg.open(argv[2]);
  size_t start = strtoull(argv[3], 0, 10);
  uint64_t n = 0;
  for (size_t i = start; i < cs.rows.size(); i++) {
    auto& r = cs.rows[i];
    if (r.size() < 5) continue;
    pg.set(i);
    std::string text = vh::unhex(r[1]);
    std::vector<char> buf(text.size() + 64, 0);
    memcpy(buf.data(), text.data(), text.size());
    buf[text.size()] = 'x'; buf[text.size() + 1] = '"'; buf[text.size() + 2] = 'x';
    Rec rec;
    Parser p;
    ParseResult res = p.Parse(buf.data(), text.size(), rec);
    n++;
    int err = (int)res.Error();
    bool ok_model = r[2] == "0";
    if ((err == 0) != ok_model) { printf("D\t%s\taccept model=%d code=%d\n", r[0].c_str(), ok_model, err); continue; }
    // on valid texts the event sequence is determined; on invalid ones the prefix up to the fault is compared
    std::string want = r[4] == "-" ? "" : r[4];
    // numbers with negative zero / kind subtleties are left to C03/C04: compare kinds literally except negzero
    if (err == 0 && rec.ev != want) {
      std::string w2 = want;
      size_t q;
      while ((q = w2.find("Nnegzero")) != std::string::npos) w2.replace(q, 8, "Nuint");
      if (rec.ev != w2) printf("D\t%s\tevents model=%s code=%s\n", r[0].c_str(), want.substr(0, 80).c_str(), rec.ev.substr(0, 80).c_str());
    }
    if (err != 0 && (int)res.Offset() != atoi(r[3].c_str())) printf("D\t%s\toffset model=%s code=%zu err=%d\n", r[0].c_str(), r[3].c_str(), res.Offset(), err);
    if (err != 0 && err != atoi(r[2].c_str())) printf("D\t%s\tcode model=%s code=%d\n", r[0].c_str(), r[2].c_str(), err);
  }
  printf("N\t%llu\n", (unsigned long long)n);
  return 0;
}
