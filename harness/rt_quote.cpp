// Replayer for string quoting (C09): internal::Quote and Serialize of string nodes on TLC-generated
// byte strings.  usage: rt_quote <events_out> <cases.tsv> <progress> <start>
// case row: id  inhex  canonical_quoting_hex
// Production builds: the source ends 'gap' bytes before the end of a mapped page that is followed by a
// PROT_NONE page, for every gap in a list (gap 0 = the string abuts the unmapped page); the bytes
// between the string and the page end are filled with two different garbage patterns and the outputs
// must be identical.  ASan builds: exact-size heap source.  Destination: 6n+35 bytes + canaries.
// An output equal to the canonical quoting is accepted at once (TLC has shown Gen_Quote!SpecOk);
// any other output is written as an event for TLC (Render!IsQuotingOf decides), as is every 40th.
#include "sonic/sonic.h"
#include "vh.h"

using namespace sonic_json;

static std::string jarr(const std::string& s) {
  std::string o = "[";
  for (size_t i = 0; i < s.size(); i++) { if (i) o += ","; o += std::to_string((unsigned char)s[i]); }
  return o + "]";
}

static bool quote_into(const char* src, size_t n, std::string* out, std::string* why) {
  size_t cap = 6 * n + 35;
  std::vector<char> dst(cap + 32, (char)0xA5);
  char* e = internal::Quote(src, n, dst.data());
  for (size_t k = cap; k < cap + 32; k++) if (dst[k] != (char)0xA5) { *why = "write beyond the 6n+35 bytes the caller reserves"; return false; }
  size_t len = e - dst.data();
  if (len > 6 * n + 2) { *why = "emitted length " + std::to_string(len) + " > 6n+2"; return false; }
  out->assign(dst.data(), len);
  return true;
}

int main(int argc, char** argv) {
  if (argc < 5) { fprintf(stderr, "usage\n"); return 3; }
  vh::Cases cs;
  cs.load(argv[2]);
  vh::Progress pg;
  pg.open(argv[3]);
  size_t start = strtoull(argv[4], 0, 10);
  FILE* ev = fopen(argv[1], start ? "a" : "w");
#if defined(__SANITIZE_ADDRESS__)
  const bool guard = false;
#else
  const bool guard = true;
#endif
  static const size_t gaps[] = {0, 1, 2, 7, 15, 16, 17, 31, 32, 33, 47, 63, 64, 65, 100};
  vh::GuardBuf gb;
  uint64_t n = 0;
  for (size_t i = start; i < cs.rows.size(); i++) {
    auto& r = cs.rows[i];
    if (r.size() < 3) continue;
    pg.set(i);
    std::string in = vh::unhex(r[1]), canon = vh::unhex(r[2]);
    std::string out, why;
    {
      char* h = (char*)malloc(in.size() ? in.size() : 1);
      memcpy(h, in.data(), in.size());
      if (!quote_into(h, in.size(), &out, &why)) vh::fail(i, "bounds", why + " (heap source)");
      free(h);
    }
    n++;
    if (guard) {
      for (size_t g : gaps) {
        std::string o1, o2;
        char* p = gb.place_end(in.size() + g, 0x22);
        memcpy(p, in.data(), in.size());
        if (!quote_into(p, in.size(), &o1, &why)) { vh::fail(i, "bounds", why + " gap=" + std::to_string(g)); continue; }
        memset(p + in.size(), 0x5c, g);
        if (g > 1) p[in.size() + 1] = 0x01;
        if (!quote_into(p, in.size(), &o2, &why)) { vh::fail(i, "bounds", why + " gap=" + std::to_string(g)); continue; }
        if (o1 != o2) vh::fail(i, "garbage", "bytes after the string influence the output (gap=" + std::to_string(g) + ")");
        if (o1 != out) vh::fail(i, "placement", "output depends on the source address (gap=" + std::to_string(g) + ")");
        n++;
      }
    }
    // through the serializer: ["<string>"] and {"<string>":"<string>"}
    {
      Document d;
      d.SetArray();
      d.PushBack(Node(StringView(in.data(), in.size()), d.GetAllocator()), d.GetAllocator());
      std::string s = d.Dump();
      if (s != "[" + out + "]") vh::fail(i, "serialize-differs", "Serialize of a string element differs from Quote");
      Document o;
      o.SetObject();
      o.AddMember(StringView(in.data(), in.size()), Node(StringView(in.data(), in.size()), o.GetAllocator()), o.GetAllocator());
      std::string t = o.Dump();
      if (t != "{" + out + ":" + out + "}") vh::fail(i, "serialize-differs", "Serialize of a string key/value differs from Quote");
    }
    if (out != canon || i % 40 == 0)
      fprintf(ev, "{\"k\":\"quote\",\"in\":%s,\"out\":%s}\n", jarr(in).c_str(), jarr(out).c_str());
  }
  fclose(ev);
  printf("N\t%llu\n", (unsigned long long)n);
  return 0;
}
