// Common helpers for the replay/record harnesses (see /verif/DESIGN.md 1.5, 12).
// Deliberately independent of sonic for all I/O: corpus files are TSV with hex byte strings.
#pragma once
#include <fcntl.h>
#include <signal.h>
#include <sys/mman.h>
#include <unistd.h>

#include <cinttypes>
#include <cstdint>
#include <cstdio>
#include <cstdlib>
#include <cstring>
#include <fstream>
#include <iostream>
#include <sstream>
#include <string>
#include <unordered_set>
#include <vector>

namespace vh {

inline std::string unhex(const std::string& h) {
  if (h == "-") return std::string();
  std::string o;
  o.reserve(h.size() / 2);
  auto v = [](char c) -> int { return c <= '9' ? c - '0' : (c | 32) - 'a' + 10; };
  for (size_t i = 0; i + 1 < h.size(); i += 2) o.push_back(char(v(h[i]) * 16 + v(h[i + 1])));
  return o;
}
inline std::string hex(const void* p, size_t n) {
  if (n == 0) return "-";
  static const char* d = "0123456789abcdef";
  std::string o;
  o.reserve(n * 2);
  const unsigned char* b = (const unsigned char*)p;
  for (size_t i = 0; i < n; i++) {
    o.push_back(d[b[i] >> 4]);
    o.push_back(d[b[i] & 15]);
  }
  return o;
}
inline std::string hex(const std::string& s) { return hex(s.data(), s.size()); }

inline std::vector<std::string> split(const std::string& s, char sep) {
  std::vector<std::string> o;
  size_t a = 0;
  for (;;) {
    size_t b = s.find(sep, a);
    if (b == std::string::npos) {
      o.push_back(s.substr(a));
      break;
    }
    o.push_back(s.substr(a, b - a));
    a = b + 1;
  }
  return o;
}

// progress file: the index of the case about to be executed (8 bytes LE), via mmap
struct Progress {
  volatile uint64_t* p = nullptr;
  void open(const char* path) {
    int fd = ::open(path, O_RDWR | O_CREAT, 0644);
    if (fd < 0) { perror("progress"); exit(3); }
    if (ftruncate(fd, 8) != 0) { perror("ftruncate"); exit(3); }
    p = (volatile uint64_t*)mmap(nullptr, 8, PROT_READ | PROT_WRITE, MAP_SHARED, fd, 0);
    if (p == MAP_FAILED) { perror("mmap"); exit(3); }
  }
  void set(uint64_t i) { *p = i; }
};

struct Cases {
  std::vector<std::vector<std::string>> rows;
  void load(const char* path) {
    std::ifstream f(path);
    if (!f) { fprintf(stderr, "cannot open %s\n", path); exit(3); }
    std::string line;
    while (std::getline(f, line)) {
      if (line.empty()) continue;
      rows.push_back(split(line, '\t'));
    }
  }
};

inline void fail(uint64_t idx, const char* kind, const std::string& detail) {
  std::string d = detail;
  for (auto& c : d) if (c == '\n' || c == '\t') c = ' ';
  printf("F\t%" PRIu64 "\t%s\t%s\n", idx, kind, d.c_str());
}

// A buffer of exactly n bytes that ends on the last byte of a mapped page; the next page is
// PROT_NONE (and optionally the page before the buffer's first page as well).
struct GuardBuf {
  char* base = nullptr;
  size_t maplen = 0;
  char* data = nullptr;
  static constexpr size_t PG = 4096;
  // place n bytes so that data + n == page end (tail guard).  garbage fills the mapped bytes
  // before data.
  char* place_end(size_t n, unsigned char garbage = 0xAA) {
    release();
    size_t pages = (n + PG - 1) / PG + 1;   // at least one page even for n = 0
    maplen = (pages + 2) * PG;
    base = (char*)mmap(nullptr, maplen, PROT_READ | PROT_WRITE, MAP_PRIVATE | MAP_ANONYMOUS, -1, 0);
    if (base == MAP_FAILED) { perror("mmap"); exit(3); }
    memset(base, garbage, maplen);
    mprotect(base, PG, PROT_NONE);
    mprotect(base + (pages + 1) * PG, PG, PROT_NONE);
    data = base + (pages + 1) * PG - n;
    return data;
  }
  // place n bytes starting exactly at a page start that follows a PROT_NONE page (head guard);
  // 'slack' readable bytes follow the buffer up to the page end, filled with garbage.
  char* place_start(size_t n, unsigned char garbage = 0xAA) {
    release();
    size_t pages = (n + PG - 1) / PG + 1;
    maplen = (pages + 2) * PG;
    base = (char*)mmap(nullptr, maplen, PROT_READ | PROT_WRITE, MAP_PRIVATE | MAP_ANONYMOUS, -1, 0);
    if (base == MAP_FAILED) { perror("mmap"); exit(3); }
    memset(base, garbage, maplen);
    mprotect(base, PG, PROT_NONE);
    mprotect(base + (pages + 1) * PG, PG, PROT_NONE);
    data = base + PG;
    return data;
  }
  // place n bytes at page offset 'off' (0..4095) inside a readable window whose last page is
  // followed by PROT_NONE
  char* place_at(size_t n, size_t off, unsigned char garbage = 0xAA) {
    release();
    size_t pages = (off + n + PG - 1) / PG + 1;
    maplen = (pages + 2) * PG;
    base = (char*)mmap(nullptr, maplen, PROT_READ | PROT_WRITE, MAP_PRIVATE | MAP_ANONYMOUS, -1, 0);
    if (base == MAP_FAILED) { perror("mmap"); exit(3); }
    memset(base, garbage, maplen);
    mprotect(base, PG, PROT_NONE);
    mprotect(base + (pages + 1) * PG, PG, PROT_NONE);
    data = base + PG + off;
    return data;
  }
  void release() {
    if (base) munmap(base, maplen);
    base = nullptr;
  }
  ~GuardBuf() { release(); }
};

inline uint64_t fnv(const std::string& s, uint64_t h = 1469598103934665603ull) {
  for (unsigned char c : s) { h ^= c; h *= 1099511628211ull; }
  return h;
}

}  // namespace vh
