// Replayer for TLC-generated behaviours of spec/Pool.tla on the real MemoryPoolAllocator (C16).
// usage: rt_pool <policy:simple|adaptive> <chunkcap> <userbuf> <misalign> <steps.tsv> <progress> <start>
// step row: beh step op tag n null inplace same size cap rc
// Checks after every step (R-level, from the property): non-null blocks 8-aligned, wholly inside one
// chunk obtained from the base allocator (or inside the user buffer), pairwise disjoint, contents of
// every live block intact, Realloc keeps the first min(old,new) bytes and grows in place when the
// specification says it must, zero size -> null, Size() <= Capacity() and Size() covers the live
// blocks; the pool stays usable through any surviving handle.  Predicted Size()/Capacity() are DRIFT.
#include <map>
#include <memory>

#include "sonic/sonic.h"
#include "vh.h"

using namespace sonic_json;

struct Extents {
  std::map<char*, size_t> chunks;   // base allocations (chunks incl. their headers)
  static Extents& get() { static Extents e; return e; }
};
class TrackBase {
 public:
  void* Malloc(size_t size) {
    if (!size) return nullptr;
    void* p = std::malloc(size);
    Extents::get().chunks[(char*)p] = size;
    return p;
  }
  void* Realloc(void* o, size_t, size_t n) { Free(o); return Malloc(n); }
  static void Free(void* p) {
    if (!p) return;
    auto& c = Extents::get().chunks;
    auto it = c.find((char*)p);
    if (it != c.end()) { memset(p, 0xDD, it->second); c.erase(it); }
    std::free(p);
  }
  static constexpr bool kNeedFree = true;
};

struct Blk { char* p; size_t req; unsigned tag; };

template <typename Policy>
static int run(size_t chunkcap, size_t userbuf, size_t misalign, vh::Cases& cs, vh::Progress& pg, size_t start) {
  using Alloc = MemoryPoolAllocator<TrackBase, Policy>;
  TrackBase base;
  std::vector<std::unique_ptr<Alloc>> handles;
  std::map<unsigned, Blk> live;
  std::vector<char> ubuf;
  char* ub = nullptr; size_t ubsz = 0;
  uint64_t n = 0, drift = 0;
  std::string cur;
  bool skip = false;
  auto fill = [](Blk& b) { for (size_t i = 0; i < b.req; i++) b.p[i] = (char)(b.tag * 31 + i * 7 + 1); };
  auto intact = [](const Blk& b, size_t upto) { for (size_t i = 0; i < upto; i++) if (b.p[i] != (char)(b.tag * 31 + i * 7 + 1)) return false; return true; };
  auto inside = [&](char* p, size_t sz) {
    if (ub && p >= ub && p + sz <= ub + ubsz) return true;
    auto& c = Extents::get().chunks;
    auto it = c.upper_bound(p);
    if (it == c.begin()) return false;
    --it;
    return p >= it->first && p + sz <= it->first + it->second;
  };
  for (size_t i = start; i < cs.rows.size(); i++) {
    auto& r = cs.rows[i];
    if (r.size() < 11) continue;
    pg.set(i);
    if (r[0] != cur) {
      handles.clear();
      live.clear();
      if (!Extents::get().chunks.empty() && !cur.empty())
        vh::fail(i - 1, "leak", "base-allocator chunks still allocated after the last handle was destroyed: " + std::to_string(Extents::get().chunks.size()));
      for (auto& kv : Extents::get().chunks) std::free(kv.first);
      Extents::get().chunks.clear();
      if (userbuf) {
        // user-supplied (possibly misaligned) first buffer; 56 = shared data + chunk header, +8 slack for the
        // alignment skip
        ubsz = userbuf + 56 + (misalign ? 8 : 0);
        ubuf.assign(ubsz + 16, 0x5A);
        ub = ubuf.data() + misalign;
        ubsz -= misalign ? misalign : 0;
        handles.emplace_back(new Alloc(ub, ubsz, chunkcap, &base));
      } else {
        ub = nullptr;
        handles.emplace_back(new Alloc(chunkcap, &base));
      }
      cur = r[0];
      skip = false;
    }
    if (skip) continue;
    const std::string& op = r[2];
    unsigned tag = (unsigned)atol(r[3].c_str());
    size_t req = (size_t)atol(r[4].c_str());
    bool wantnull = r[5] == "1", inplace = r[6] == "1";
    Alloc& A = *handles.back();       // always operate through the most recent handle: all share one pool
    bool bad = false;
    char b[200];
    n++;
    if (op == "malloc") {
      char* p = (char*)A.Malloc(req);
      if ((p == nullptr) != wantnull) { snprintf(b, sizeof b, "Malloc(%zu) returned %s", req, p ? "non-null" : "null"); vh::fail(i, "null", b); bad = true; }
      if (p) { Blk k{p, req, tag}; fill(k); live[tag] = k; }
    } else if (op == "realloc") {
      auto it = live.find(tag);
      if (it == live.end()) { vh::fail(i, "harness", "unknown tag"); skip = true; continue; }
      Blk old = it->second;
      char* p = (char*)A.Realloc(old.p, old.req, req);
      if ((p == nullptr) != wantnull) { snprintf(b, sizeof b, "Realloc(%zu -> %zu) returned %s", old.req, req, p ? "non-null" : "null"); vh::fail(i, "null", b); bad = true; }
      if (!p) live.erase(it);
      else {
        Blk k{p, req, tag};
        size_t keep = old.req < req ? old.req : req;
        if (!intact(k, keep)) { snprintf(b, sizeof b, "Realloc(%zu -> %zu) lost the first %zu bytes", old.req, req, keep); vh::fail(i, "realloc-prefix", b); bad = true; }
        if (inplace && p != old.p) { snprintf(b, sizeof b, "Realloc(%zu -> %zu) of the most recent block with room left did not grow in place", old.req, req); vh::fail(i, "inplace", b); bad = true; }
        fill(k);
        live[tag] = k;
      }
    } else if (op == "clear") { A.Clear(); live.clear(); }
    else if (op == "copyhandle") handles.emplace_back(new Alloc(*handles[0]));
    else if (op == "drophandle") { handles.erase(handles.begin()); if (handles.empty()) live.clear(); }
    else { vh::fail(i, "harness", "unknown op " + op); skip = true; continue; }
    // R-level checks over all live blocks
    size_t sum = 0;
    for (auto& kv : live) {
      Blk& k = kv.second;
      sum += (k.req + 7) & ~size_t(7);
      if (((uintptr_t)k.p & 7) != 0) { snprintf(b, sizeof b, "block tag %u (req %zu) at %p is not 8-aligned", k.tag, k.req, (void*)k.p); vh::fail(i, "alignment", b); bad = true; }
      if (!inside(k.p, k.req)) { snprintf(b, sizeof b, "block tag %u (req %zu) is not wholly inside one chunk / the user buffer", k.tag, k.req); vh::fail(i, "containment", b); bad = true; }
      else if (!intact(k, k.req)) { snprintf(b, sizeof b, "contents of block tag %u (req %zu) were disturbed by '%s'", k.tag, k.req, op.c_str()); vh::fail(i, "contents", b); bad = true; }
      for (auto& kv2 : live) {
        if (kv2.first <= kv.first) continue;
        Blk& q = kv2.second;
        if (k.p < q.p + q.req && q.p < k.p + k.req) { snprintf(b, sizeof b, "blocks tag %u and %u overlap", k.tag, q.tag); vh::fail(i, "overlap", b); bad = true; }
      }
    }
    if (!handles.empty()) {
      Alloc& H = *handles.front();
      size_t sz = H.Size(), cp = H.Capacity();
      if (sz > cp) { snprintf(b, sizeof b, "Size() %zu > Capacity() %zu", sz, cp); vh::fail(i, "accounting", b); bad = true; }
      if (sz < sum) { snprintf(b, sizeof b, "Size() %zu < %zu bytes handed out and still owned", sz, sum); vh::fail(i, "accounting", b); bad = true; }
      if (sz % 8) { snprintf(b, sizeof b, "Size() %zu is not a multiple of the 8-byte granule", sz); vh::fail(i, "accounting", b); bad = true; }
      if ((long)sz != atol(r[8].c_str()) || (!userbuf && (long)cp != atol(r[9].c_str()))) drift++;
      if (H.Shared() != (handles.size() > 1)) { vh::fail(i, "refcount", "Shared() disagrees with the number of handles"); bad = true; }
    }
    if (bad) skip = true;
  }
  handles.clear();
  if (!Extents::get().chunks.empty()) vh::fail(cs.rows.size() - 1, "leak", "chunks still allocated at the end");
  printf("DRIFT\tsizecap\t%llu\n", (unsigned long long)drift);
  printf("N\t%llu\n", (unsigned long long)n);
  return 0;
}

int main(int argc, char** argv) {
  if (argc < 8) { fprintf(stderr, "usage\n"); return 3; }
  vh::Cases cs;
  cs.load(argv[5]);
  vh::Progress pg;
  pg.open(argv[6]);
  size_t start = strtoull(argv[7], 0, 10);
  while (start > 0 && start < cs.rows.size() && cs.rows[start][1] != "0") start++;
  size_t cc = strtoul(argv[2], 0, 10), ub = strtoul(argv[3], 0, 10), mis = strtoul(argv[4], 0, 10);
  if (std::string(argv[1]) == "adaptive") return run<AdaptiveChunkPolicy>(cc, ub, mis, cs, pg, start);
  return run<SimpleChunkPolicy>(cc, ub, mis, cs, pg, start);
}
