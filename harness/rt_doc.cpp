// Replayer for behaviours of spec/Document.tla on real GenericDocument objects with freeing allocators (C13).
// usage: rt_doc <alloc:track|simple> <ledgerlog|-> <steps.tsv> <progress> <start>
// step row: beh step op a b ok k nl orph
// After every step each live document is walked through the accessor API (every string byte is read: a freed
// buffer shows as poison with the tracking allocator and as a use-after-free under ASan with SimpleAllocator)
// and must survive Dump -> Parse -> Dump.  At the end of a behaviour both documents are destroyed: blocks still
// allocated are a leak, except as many as the specification predicts for the recorded schema-buffer finding.
#include <memory>

#include "sonic/sonic.h"
#include "track_alloc.h"
#include "vh.h"
#include "walk.h"

using namespace sonic_json;

static const char* T_OK0 = "17";
static const char* T_OK2 = R"({"a":"x","b":[1,"yy"]})";
static const char* T_BAD = R"({"a":"x","b":[1,"y)";
static const char* S_OK0 = "5";
static const char* S_OK2 = R"({"a":"new","b":[2,"zz"],"undeclared":{"q":[1]}})";
static const char* S_BAD = R"({"a":{"m":"fast"},"b":["p","q"],"c":tru)";

template <typename A>
static int run(const char* logpath, vh::Cases& cs, vh::Progress& pg, size_t start) {
  using Doc = GenericDocument<DNode<A>>;
  constexpr bool track = std::is_same<A, vh::TrackAllocator>::value;
  auto& L = vh::Ledger::get();
  if (track && std::string(logpath) != "-") L.log = fopen(logpath, start ? "a" : "w");
  std::unique_ptr<Doc> d[3];
  // a free-standing deep copy of some document's tree in another allocator, and what it read as when it was made:
  // whatever happens to its source afterwards, it must keep reading the same
  MemoryPoolAllocator<> snap_alloc;
  std::unique_ptr<DNode<MemoryPoolAllocator<>>> snap;
  std::string snap_walk;
  bool alive[3] = {false, true, true};
  std::string cur;
  long pred_orph = 0;
  uint64_t n = 0, drift = 0;
  bool skip = false;
  auto check_snap = [&](size_t i, const std::string& after) {
    if (!snap) return true;
    std::string prob, w = vh::Walk(*snap, prob);
    if (w != snap_walk) {
      vh::fail(i, "copy", "a deep copy made earlier reads differently after " + after + " on the documents: " + w.substr(0, 140) + " (was " + snap_walk.substr(0, 140) + ")");
      snap.reset();
      return false;
    }
    return true;
  };
  auto end_behaviour = [&](size_t i) {
    d[1].reset();
    d[2].reset();
    check_snap(i, "destruction");
    snap.reset();
    snap_alloc.Clear();
    if (track) {
      long left = (long)L.live.size();
      if (left != 0 && left <= pred_orph) {
        vh::fail(i, "leak-schema-buffer", std::to_string(left) + " schema input buffer(s) never released (repeated ParseSchema overwrites schema_str_)");
        std::vector<void*> ps;
        for (auto& kv : L.live) ps.push_back(kv.first);
        for (void* p : ps) { L.ev("knownleak", L.live[p].id, L.live[p].size); std::free(p); }
        L.live.clear();
      } else if (left != 0) {
        vh::fail(i, "leak", std::to_string(left) + " blocks still allocated after both documents were destroyed (specification predicts " + std::to_string(pred_orph) + ")");
        for (auto& kv : L.live) std::free(kv.first);
        L.live.clear();
        L.mark("abandon");
      }
      L.mark("reset");
    }
  };
  for (size_t i = start; i < cs.rows.size(); i++) {
    auto& r = cs.rows[i];
    if (r.size() < 9) continue;
    pg.set(i);
    if (r[0] != cur) {
      if (!cur.empty()) end_behaviour(i - 1);
      d[1].reset(new Doc());
      d[2].reset(new Doc());
      alive[1] = alive[2] = true;
      cur = r[0];
      skip = false;
      pred_orph = 0;
    }
    if (skip) continue;
    const std::string& op = r[2];
    int a = atoi(r[3].c_str()), b = atoi(r[4].c_str());
    bool ok = r[5] == "1";
    int k = atoi(r[6].c_str());
    pred_orph = atol(r[8].c_str());
    n++;
    if (op == "parse") { const char* t = ok ? (k ? T_OK2 : T_OK0) : T_BAD; d[a]->Parse(t, strlen(t)); if (d[a]->HasParseError() == ok) vh::fail(i, "harness", "parse verdict"); }
    else if (op == "parseschema") { const char* t = ok ? (k ? S_OK2 : S_OK0) : S_BAD; d[a]->ParseSchema(t, strlen(t)); }
    else if (op == "move") { *d[a] = std::move(*d[b]); }
    else if (op == "swap") { d[a]->Swap(*d[b]); }
    else if (op == "mutate") {
      if (k == 0) d[a]->SetUint64(1);
      else { d[a]->SetArray(); d[a]->PushBack(typename Doc::NodeType(StringView("owned string"), d[a]->GetAllocator()), d[a]->GetAllocator()); }
    } else if (op == "recreate") { d[a].reset(new Doc()); }
    else if (op == "copyout") { snap.reset(new DNode<MemoryPoolAllocator<>>(*d[a], snap_alloc)); std::string p0; snap_walk = vh::Walk(*snap, p0); }
    else if (op == "dropcopy") { snap.reset(); }
    else { vh::fail(i, "harness", "unknown op"); skip = true; continue; }
    // every live, not moved-from document must be readable and self-consistent
    if (op == "move") { alive[a] = true; alive[b] = false; }
    else if (op == "swap") std::swap(alive[a], alive[b]);
    else if (op == "recreate") alive[a] = true;
    for (int x = 1; x <= 2; x++) {
      if (!alive[x]) continue;                           // moved-from: only destroyed or re-created afterwards
      std::string prob, w = vh::Walk(*d[x], prob);
      if (w.find("dddd") != std::string::npos) { vh::fail(i, "use-after-free", "document " + std::to_string(x) + " reads freed (poisoned) memory after " + op + ": " + w.substr(0, 120)); skip = true; }
      std::string dump = d[x]->Dump();
      Document chk;
      chk.Parse(dump.data(), dump.size());
      std::string p2;
      if (chk.HasParseError() || vh::Walk(chk, p2) != w) { vh::fail(i, "corrupt", "document " + std::to_string(x) + " does not survive Dump/Parse after " + op + ": " + dump.substr(0, 100)); skip = true; }
    }
    if (!check_snap(i, op)) skip = true;
    if (track) {
      if ((long)L.live.size() != atol(r[7].c_str())) drift++;
      if (!L.problems.empty()) { for (auto& p : L.problems) vh::fail(i, "ledger", p + " (after " + op + ")"); L.problems.clear(); skip = true; }
    }
  }
  if (!cur.empty()) end_behaviour(cs.rows.size() - 1);
  if (L.log) fclose(L.log);
  printf("DRIFT\tledger\t%llu\n", (unsigned long long)drift);
  printf("N\t%llu\n", (unsigned long long)n);
  return 0;
}

int main(int argc, char** argv) {
  if (argc < 6) { fprintf(stderr, "usage\n"); return 3; }
  vh::Cases cs;
  cs.load(argv[3]);
  vh::Progress pg;
  pg.open(argv[4]);
  size_t start = strtoull(argv[5], 0, 10);
  while (start > 0 && start < cs.rows.size() && cs.rows[start][1] != "0") start++;
  if (std::string(argv[1]) == "track") return run<vh::TrackAllocator>(argv[2], cs, pg, start);
  return run<SimpleAllocator>(argv[2], cs, pg, start);
}
