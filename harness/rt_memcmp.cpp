// Replayer for byte-range comparison and member lookup (C14).
// usage: rt_memcmp <mode:cmp|keys> <cases.tsv> <progress> <start>
// cmp row : id ahex bhex eq(0/1) sign(-1/0/1)
//   internal::InlinedMemcmpEq / InlinedMemcmp (the configured arch namespace) and FindMember / HasMember on
//   an object whose single member name is b, looked up with a, for every pair of end gaps: each operand
//   ends 'gap' bytes before the end of a mapped page followed by PROT_NONE (production builds), or lives in
//   an exact-size heap block (ASan builds).
// keys row: id nkeys key1hex ... nprobes probe1hex ... probefound... lessmatrix(rowwise 0/1)
//   an object with these member names: linear lookup, lookup after CreateMap, and the map comparator order.
#include "sonic/sonic.h"
#include "vh.h"

using namespace sonic_json;

static int sgn(int x) { return x < 0 ? -1 : (x > 0 ? 1 : 0); }

int main(int argc, char** argv) {
  if (argc < 5) { fprintf(stderr, "usage\n"); return 3; }
  std::string mode = argv[1];
  vh::Cases cs;
  cs.load(argv[2]);
  vh::Progress pg;
  pg.open(argv[3]);
  size_t start = strtoull(argv[4], 0, 10);
#if defined(__SANITIZE_ADDRESS__)
  const bool guard = false;
  static const size_t gaps[] = {0};
#else
  const bool guard = true;
  static const size_t gaps[] = {0, 1, 2, 15, 16, 30, 31, 32, 33, 63, 64, 100, 2100};
#endif
  vh::GuardBuf ga, gb;
  uint64_t n = 0;
  for (size_t i = start; i < cs.rows.size(); i++) {
    auto& r = cs.rows[i];
    pg.set(i);
    if (mode == "cmp") {
      if (r.size() < 5) continue;
      std::string a = vh::unhex(r[1]), b = vh::unhex(r[2]);
      bool eq = r[3] == "1";
      int sign = atoi(r[4].c_str());
      size_t s = a.size();
      for (size_t g1 : gaps) for (size_t g2 : gaps) {
        const char *pa, *pb;
        char *ha = nullptr, *hb = nullptr;
        if (guard) {
          char* x = ga.place_end(s + g1, 0x61); memcpy(x, a.data(), s); pa = x;
          char* y = gb.place_end(s + g2, 0x61); memcpy(y, b.data(), s); pb = y;
          // bytes after the ranges differ between the operands: they must not matter
          memset(x + s, 0x11, g1); memset(y + s, 0x99, g2);
        } else {
          ha = (char*)malloc(s ? s : 1); hb = (char*)malloc(s ? s : 1);
          memcpy(ha, a.data(), s); memcpy(hb, b.data(), s); pa = ha; pb = hb;
        }
        n++;
        char t[160];
#if defined(SONIC_STATIC_DISPATCH)
        bool e1 = internal::InlinedMemcmpEq(pa, pb, s), e2 = internal::InlinedMemcmpEq(pb, pa, s);
        if (e1 != eq || e2 != eq) { snprintf(t, sizeof t, "InlinedMemcmpEq(len %zu) = %d/%d, ranges are %s (end gaps %zu,%zu)", s, e1, e2, eq ? "equal" : "different", g1, g2); vh::fail(i, "memeq", t); }
        int c1 = internal::InlinedMemcmp(pa, pb, s), c2 = internal::InlinedMemcmp(pb, pa, s);
        if (sgn(c1) != sign || sgn(c2) != -sign) { snprintf(t, sizeof t, "InlinedMemcmp(len %zu) = %d / reversed %d, memcmp sign is %d (end gaps %zu,%zu)", s, c1, c2, sign, g1, g2); vh::fail(i, "memsign", t); }
#endif
        // member lookup: the name lives at pb (not copied), the key at pa
        {
          Document d;
          d.SetObject();
          d.AddMember(StringView(pb, s), Node(1), d.GetAllocator(), false);
          bool f1 = d.FindMember(pa, s) != d.MemberEnd(), f2 = d.FindMember(StringView(pa, s)) != d.MemberEnd(), f3 = d.HasMember(StringView(pa, s));
          if (f1 != eq || f2 != eq || f3 != eq) { snprintf(t, sizeof t, "FindMember(ptr,len)/FindMember(view)/HasMember = %d/%d/%d for a key that is %s the member name (len %zu, end gaps %zu,%zu)", f1, f2, f3, eq ? "equal to" : "different from", s, g1, g2); vh::fail(i, "lookup", t); }
          d.CreateMap(d.GetAllocator());
          bool f4 = d.FindMember(StringView(pa, s)) != d.MemberEnd();
          if (f4 != eq) { snprintf(t, sizeof t, "FindMember after CreateMap = %d, expected %d (len %zu)", f4, eq, s); vh::fail(i, "maplookup", t); }
        }
        free(ha); free(hb);
      }
    } else {
      size_t k = 1;
      size_t nk = strtoul(r[k++].c_str(), 0, 10);
      std::vector<std::string> keys, probes;
      for (size_t j = 0; j < nk; j++) keys.push_back(vh::unhex(r[k++]));
      size_t np = strtoul(r[k++].c_str(), 0, 10);
      for (size_t j = 0; j < np; j++) probes.push_back(vh::unhex(r[k++]));
      std::vector<int> pf;
      for (size_t j = 0; j < np; j++) pf.push_back(atoi(r[k++].c_str()));
      n++;
      for (int withmap = 0; withmap < 2; withmap++) {
        Document d;
        d.SetObject();
        for (size_t j = 0; j < nk; j++) d.AddMember(StringView(keys[j].data(), keys[j].size()), Node((uint64_t)j), d.GetAllocator());
        if (withmap) d.CreateMap(d.GetAllocator());
        for (size_t j = 0; j < nk; j++) {
          auto it = d.FindMember(StringView(keys[j].data(), keys[j].size()));
          if (it == d.MemberEnd() || it->value.GetUint64() != j) {
            vh::fail(i, withmap ? "maplookup" : "lookup", std::string("FindMember ") + (withmap ? "with map" : "linear") + (it == d.MemberEnd() ? " misses" : " finds the wrong member for") + " key #" + std::to_string(j) + " of " + std::to_string(nk) + " (len " + std::to_string(keys[j].size()) + ")");
          }
          auto it2 = d.FindMember(keys[j].data(), keys[j].size());
          if (it2 != it) vh::fail(i, "lookup", "FindMember(ptr,len) and FindMember(view) disagree");
        }
        for (size_t j = 0; j < np; j++) {
          bool f = d.FindMember(StringView(probes[j].data(), probes[j].size())) != d.MemberEnd();
          if (f != (pf[j] != 0)) vh::fail(i, withmap ? "maplookup" : "lookup", std::string("probe key #") + std::to_string(j) + (f ? " found but absent" : " missed"));
        }
      }
      // the three-way comparison that orders the map: sign of memcmp on the common prefix
#if defined(SONIC_STATIC_DISPATCH)
      for (size_t x = 0; x < nk; x++) for (size_t y = 0; y < nk; y++) {
        int want = atoi(r[k + x * nk + y].c_str());
        size_t m = std::min(keys[x].size(), keys[y].size());
        int c = internal::InlinedMemcmp(keys[x].data(), keys[y].data(), m);
        bool less = c < 0 || (c == 0 && keys[x].size() < keys[y].size());
        if (less != (want != 0)) vh::fail(i, "memsign", "ordering of keys #" + std::to_string(x) + " and #" + std::to_string(y) + " by InlinedMemcmp disagrees with memcmp order");
      }
#endif
    }
  }
  printf("N\t%llu\n", (unsigned long long)n);
  return 0;
}
