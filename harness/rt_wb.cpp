// Conformance of the real WriteBuffer / SerializeImpl growth with the I-model spec/WriteBuf.tla (DRIFT only).
// usage: rt_wb <cases.tsv> <progress> <start>     row: id stream cap0 size cap
//   stream: ';'-joined tokens  s<n>:<e> (string of n bytes, e of them control bytes)  n<o> (number printed in o bytes)
//           t f (true/false)  o<k> (open array of k children)  c (close)  e (empty array)
#include "sonic/sonic.h"
#include "vh.h"
using namespace sonic_json;

static size_t build(const std::vector<std::string>& t, size_t i, Node& out, Node::AllocatorType& a) {
  const std::string& k = t[i];
  if (k[0] == 's') {
    size_t n = strtoul(k.c_str() + 1, 0, 10), e = strtoul(k.c_str() + k.find(':') + 1, 0, 10);
    std::string s(n, 'a');
    for (size_t j = 0; j < e; j++) s[j] = '\x01';
    out.SetString(StringView(s.data(), s.size()), a);
    return i + 1;
  }
  if (k[0] == 'n') {
    size_t o = strtoul(k.c_str() + 1, 0, 10);
    if (o <= 20) { uint64_t v = 1; for (size_t j = 1; j < o; j++) v *= 10; out.SetUint64(v); }
    else out.SetDouble(-1.2345678901234567e-100 * (o == 32 ? 1 : 1));   // "-1.2345678901234567e-100" is 24 bytes; see below
    return i + 1;
  }
  if (k == "t") { out.SetBool(true); return i + 1; }
  if (k == "f") { out.SetBool(false); return i + 1; }
  if (k == "e") { out.SetArray(); return i + 1; }
  if (k[0] == 'o') {
    out.SetArray();
    i++;
    while (t[i] != "c") { Node c; i = build(t, i, c, a); out.PushBack(std::move(c), a); }
    return i + 1;
  }
  return i + 1;
}

int main(int argc, char** argv) {
  if (argc < 4) return 3;
  vh::Cases cs; cs.load(argv[1]);
  vh::Progress pg; pg.open(argv[2]);
  size_t start = strtoull(argv[3], 0, 10);
  uint64_t n = 0, dsize = 0, dcap = 0;
  for (size_t i = start; i < cs.rows.size(); i++) {
    auto& r = cs.rows[i];
    if (r.size() < 5) continue;
    pg.set(i);
    Document d;
    std::vector<std::string> t = vh::split(r[1], ';');
    build(t, 0, d, d.GetAllocator());
    WriteBuffer wb((size_t)atol(r[2].c_str()));
    if (d.Serialize(wb) != kErrorNone) { vh::fail(i, "ser-error", "Serialize failed"); continue; }
    n++;
    if ((long)wb.Size() != atol(r[3].c_str())) { dsize++; if (dsize <= 3) printf("# size drift: stream=%s cap0=%s model=%s code=%zu\n", r[1].c_str(), r[2].c_str(), r[3].c_str(), wb.Size()); }
    if ((long)wb.Capacity() != atol(r[4].c_str())) { dcap++; if (dcap <= 3) printf("# cap drift: stream=%s cap0=%s model=%s code=%zu size=%zu\n", r[1].c_str(), r[2].c_str(), r[4].c_str(), wb.Capacity(), wb.Size()); }
  }
  printf("DRIFT\tsize\t%llu\tcap\t%llu\n", (unsigned long long)dsize, (unsigned long long)dcap);
  printf("N\t%llu\n", (unsigned long long)n);
  return 0;
}
