#!/bin/sh
# /verif/run.sh <ID> quick|thorough        run the check of one property
# /verif/run.sh <ID> --replay <path>       re-execute one recorded violating case
cd "$(dirname "$0")" || exit 2
exec python3 scripts/check.py "$@"
